import torch, copy; F = torch.nn.functional
from optimum.quanto import quantize_activation as qa, quantize_weight as qw, qint8, qint4, qint2, qfloat8_e4m3fn as f8, qfloat8_e5m2 as f8b, absmax_scale
from optimum.quanto.tensor import SymmetricQuantizer
torch.manual_seed(0)
def act(x, qt=qint8, f=1.0): return qa(x, qt, absmax_scale(x, qt) * f)
def ok(f):
    try: r = f(); return "ok " + (str(tuple(r.shape)) if hasattr(r, "shape") else repr(r))
    except BaseException as e: return "RAISES " + type(e).__name__ + ": " + str(e)[:90]

x = torch.randn(32); w = qw(torch.randn(2, 32), qint8, 0)
print("float:", tuple(F.linear(x, w.dequantize()).shape), "| quantized:", tuple(F.linear(x, w).shape))
