import torch, copy; F = torch.nn.functional
from optimum.quanto import quantize_activation as qa, quantize_weight as qw, qint8, qint4, qint2, qfloat8_e4m3fn as f8, qfloat8_e5m2 as f8b, absmax_scale
from optimum.quanto.tensor import SymmetricQuantizer
torch.manual_seed(0)
def act(x, qt=qint8, f=1.0): return qa(x, qt, absmax_scale(x, qt) * f)
def ok(f):
    try: r = f(); return "ok " + (str(tuple(r.shape)) if hasattr(r, "shape") else repr(r))
    except BaseException as e: return "RAISES " + type(e).__name__ + ": " + str(e)[:90]

q = act(torch.tensor([0.1, -0.2, 0.3])); m = torch.tensor([True, False, True])
print("float:", torch.where(m, q.dequantize(), -1000.0).tolist(), "| quantized:", torch.where(m, q, -1000.0).dequantize().tolist())
