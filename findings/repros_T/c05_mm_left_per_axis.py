import torch, copy; F = torch.nn.functional
from optimum.quanto import quantize_activation as qa, quantize_weight as qw, qint8, qint4, qint2, qfloat8_e4m3fn as f8, qfloat8_e5m2 as f8b, absmax_scale
from optimum.quanto.tensor import SymmetricQuantizer
torch.manual_seed(0)
def act(x, qt=qint8, f=1.0): return qa(x, qt, absmax_scale(x, qt) * f)
def ok(f):
    try: r = f(); return "ok " + (str(tuple(r.shape)) if hasattr(r, "shape") else repr(r))
    except BaseException as e: return "RAISES " + type(e).__name__ + ": " + str(e)[:90]
a = SymmetricQuantizer.apply(x := torch.randn(24, 8) * torch.logspace(-1, 1, 8), qint8, -1, absmax_scale(x, qint8, -1)); b = act(torch.randn(8, 8))
e, r = a.dequantize() @ b.dequantize(), torch.mm(a, b)   # left operand quantized along the contraction axis
print("max |error| / max |expected| =", ((r - e).abs().max() / e.abs().max()).item())
