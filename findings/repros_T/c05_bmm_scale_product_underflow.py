import torch, copy; F = torch.nn.functional
from optimum.quanto import quantize_activation as qa, quantize_weight as qw, qint8, qint4, qint2, qfloat8_e4m3fn as f8, qfloat8_e5m2 as f8b, absmax_scale
from optimum.quanto.tensor import SymmetricQuantizer
torch.manual_seed(0)
def act(x, qt=qint8, f=1.0): return qa(x, qt, absmax_scale(x, qt) * f)
def ok(f):
    try: r = f(); return "ok " + (str(tuple(r.shape)) if hasattr(r, "shape") else repr(r))
    except BaseException as e: return "RAISES " + type(e).__name__ + ": " + str(e)[:90]

a = act(0.1 * torch.randn(8, 2, 1).half()); w = 0.05 * torch.randn(8, 1, 2); w[0, 0, 0] = 1; b = qw(w.half(), qint8, 0)
r, e = torch.bmm(a, b), torch.bmm(a.dequantize().double(), b.dequantize().double())
print("max relative error vs float64 of the dequantized operands:", ((r.double() - e).abs() / e.abs().clamp_min(1e-12)).max().item(), "(fp16 eps is 0.00098)")
