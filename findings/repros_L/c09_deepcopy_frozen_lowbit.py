"""C09 (open finding C09-deepcopy-frozen-lowbit-raises): copy.deepcopy of a model with frozen qint2/qint4 weights raises.

Run with PYTHONPATH=/repo /venv/bin/python findings/repros_L/c09_deepcopy_frozen_lowbit.py
Exit 1 and the message while the defect is present, exit 0 once a frozen low-bit model can be copied."""
import copy
import sys
import warnings

import torch

from optimum.quanto import freeze, qint2, qint4, qint8, quantize

warnings.simplefilter("ignore")
bad = []
for wq in (qint8, qint4, qint2):
    for frozen in (False, True):
        m = torch.nn.Sequential(torch.nn.Linear(8, 4), torch.nn.ReLU(), torch.nn.Linear(4, 2))
        quantize(m, weights=wq)
        if frozen:
            freeze(m)
        x = torch.randn(3, 8)
        with torch.no_grad():
            ref = m(x)
        try:
            c = copy.deepcopy(m)
            with torch.no_grad():
                same = torch.equal(c(x), ref)
            print(f"{wq.name:6s} frozen={frozen}: copied, outputs identical: {same}")
            if not same:
                bad.append((wq.name, frozen, "outputs differ"))
        except Exception as e:
            print(f"{wq.name:6s} frozen={frozen}: deepcopy raised {type(e).__name__}: {str(e)[:90]}")
            bad.append((wq.name, frozen, type(e).__name__))
if bad:
    print("FAIL:", bad)
    sys.exit(1)
print("PASS")
