"""Planner of engine L: seed -> plan (swarm configuration, architecture, op sequence, faults).

The planner keeps a small abstract model of the world so that most emitted operations are valid;
the executor stays the authority (invalid ops are skipped), which is what makes any sub-list of a
plan a valid plan for the shrinker."""
import copy
import math

from .core import Streams

WQ = ["qint8", "qint4", "qint2", "qfloat8", "qfloat8_e4m3fn", "qfloat8_e5m2"]
AQ = ["qint8", "qfloat8", "qfloat8_e4m3fn", "qfloat8_e5m2"]
DT = ["float32", "float16", "bfloat16"]
FEATS_COMMON = [1, 2, 3, 8, 16, 31, 32, 33, 48, 64]
FEATS_WIDE = [96, 128, 129, 136, 160, 192, 256, 288, 320]
ACTS = ["relu", "gelu", "silu", "softmax", "id", "drop", "scale"]
WCLS = ["noise", "noise", "noise", "uniform", "onesided", "offset", "exact"]
WCLS_RARE = ["const", "zero_rows"]
ICLS = ["noise", "uniform", "onesided", "exact", "peak"]


def subset(rng, items, p=0.5, at_least=1):
    s = [x for x in items if rng.random() < p]
    while len(s) < at_least:
        s.append(rng.choice(items))
    return s


def logu(rng, lo, hi):
    return int(round(math.exp(rng.uniform(math.log(lo), math.log(hi)))))


class Abs:
    """Abstract deployment state kept by the planner."""

    def __init__(self, did):
        self.id = did
        self.quantized = False
        self.frozen = False
        self.calibrated = False
        self.leaves = []  # (path, kind) of quantizable-kind leaves
        self.qpaths = []  # paths that became quantized modules
        self.inputs = []  # input descriptors used so far (memo candidates)
        self.family = None
        self.in_shape = None
        self.weights = None
        self.activations = None
        self.dtype = "float32"
        self.arch = None
        self.wcls = "noise"
        self.init = 0


class Planner:
    def __init__(self, prop, seed, cfg):
        self.prop = prop
        self.seed = seed
        self.cfg = cfg
        self.S = Streams(seed)
        self.rng = self.S.rng("plan")
        self.deps = {}
        self.next_dep = 0
        self.next_fid = 0
        self.files = {}
        self.nops = 0
        r = self.S.rng("swarm")
        self.sw = {
            "wq": subset(r, WQ, 0.45),
            "aq": subset(r, AQ, 0.5) + ([None] if r.random() < 0.6 else []),
            "dt": subset(r, DT, 0.5),
            "acts": subset(r, ACTS, 0.5),
            "family": subset(r, ["mlp", "cnn"], 0.6),
            "wide": r.random() < 0.35,
            "rare_w": r.random() < 0.15,
            "icls": subset(r, ICLS, 0.5),
            "zero_batches": r.random() < 0.25 and prop == "C12",
            "pre_trainable": r.random() < 0.15 and prop in ("C08", "C11"),
            "mixed_modes": r.random() < 0.2 and prop == "C08",
            "fault_kinds": subset(r, cfg.get("fault_kinds", ["module", "aten", "line"]), 0.6) if cfg.get("faults") else [],
            "fault_p": r.choice([0.15, 0.3, 0.5]) if cfg.get("faults") else 0.0,
            "interrupt": r.random() < 0.5,
            "streamline": r.choice([True, False, None]),
            "grad": r.choice(["no_grad", "no_grad", "enable_grad", None]),
            "containers": subset(r, ["seq", "chain", "res"], 0.6) + (["seqslice"] if r.random() < 0.25 else []),
            "ln": r.random() < 0.6,
            "explicit_opt": r.random() < 0.3,
            "filter": r.random() < 0.3,
            "qinput": r.random() < 0.3,
            "lead_ranks": subset(r, [1, 2, 3], 0.5) + ([0] if (r.random() < 0.12 and prop in ("C08", "C09", "C11", "C13")) else []),
            "shared": r.random() < 0.08 and prop == "C08",
            "tied": r.random() < 0.12 and prop in ("C08", "C13"),
        }
        for k, v in (cfg.get("force") or {}).items():
            self.sw[k] = v

    # ------------------------------------------------------------ architectures
    def feat(self):
        r = self.rng
        if self.sw["wide"] and r.random() < 0.4:
            return r.choice(FEATS_WIDE)
        return r.choice(FEATS_COMMON)

    def gen_mlp(self):
        r = self.rng
        f = self.feat()
        in_shape = [f]
        items = []
        n = r.randint(1, 4)
        for _ in range(n):
            c = r.random()
            if c < 0.55:
                o = self.feat()
                items.append({"k": "lin", "i": f, "o": o, "bias": r.random() < 0.7, "sub": r.random() < 0.1})
                f = o
            elif c < 0.7 and self.sw["ln"]:
                items.append({"k": "ln", "shape": [f], "affine": r.random() < 0.85, "bias": r.random() < 0.8})
            elif c < 0.85 and "res" in self.sw["containers"]:
                body = [{"k": "lin", "i": f, "o": f, "bias": r.random() < 0.7}]
                if r.random() < 0.5:
                    body.append(self.act())
                items.append({"k": "res", "body": {"k": "seq", "c": body}})
            else:
                items.append(self.act())
        if not any(self.has_quantizable(i) for i in items):
            items.append({"k": "lin", "i": f, "o": self.feat(), "bias": True})
        if self.sw.get("tied") and r.random() < 0.6:
            # two Linear modules of the same shape sharing one weight Parameter (tied weights)
            sq = [i for i, it in enumerate(items) if it["k"] == "lin" and it["i"] == it["o"] == f]
            if sq:
                items.append({"k": "lin", "i": f, "o": f, "bias": r.random() < 0.5, "tie_to": sq[-1]})
                return {"k": "seq", "c": items}, in_shape
        if self.sw.get("shared") and r.random() < 0.5:
            # weight tying: a square Linear used twice in the same Sequential
            sq = [i for i, it in enumerate(items) if it["k"] == "lin" and it["i"] == it["o"] == f]
            if sq:
                items.append({"k": "ref", "to": sq[-1]})
                return {"k": "seq", "c": items}, in_shape
        return self.wrap(items), in_shape

    def act(self):
        r = self.rng
        k = r.choice(self.sw["acts"])
        if k == "scale":
            return {"k": "scale", "c": r.choice([0.5, 2.0, -1.0, 3.0])}
        return {"k": k}

    def has_quantizable(self, spec):
        if spec["k"] == "ref":
            return False
        if spec["k"] in ("lin", "conv"):
            return True
        if spec["k"] in ("seq", "chain", "seqslice"):
            return any(self.has_quantizable(c) for c in spec["c"])
        if spec["k"] == "res":
            return self.has_quantizable(spec["body"])
        return False

    def wrap(self, items):
        """Nest a flat list into containers (depth <= 3)."""
        r = self.rng
        kinds = [k for k in self.sw["containers"] if k in ("seq", "chain", "seqslice")] or ["seq"]
        if len(items) >= 3 and r.random() < 0.5:
            cut = r.randint(1, len(items) - 1)
            inner = {"k": r.choice(kinds), "c": items[:cut]}
            if len(inner["c"]) >= 2 and r.random() < 0.3:
                c2 = r.randint(1, len(inner["c"]) - 1)
                inner["c"] = [{"k": r.choice(kinds), "c": inner["c"][:c2]}] + inner["c"][c2:]
            items = [inner] + items[cut:]
        return {"k": r.choice(kinds), "c": items}

    def gen_cnn(self):
        r = self.rng
        c = r.choice([1, 2, 3, 4, 8])
        h, wd = r.choice([5, 6, 8, 9]), r.choice([5, 6, 8, 9])
        in_shape = [c, h, wd]
        items = []
        n = r.randint(1, 3)
        for _ in range(n):
            groups = 1
            co = r.choice([1, 2, 4, 6, 8, 16])
            if r.random() < 0.25:
                for g in (2, 3, 4):
                    if c % g == 0 and co % g == 0 and r.random() < 0.5:
                        groups = g
            ks = [r.choice([1, 2, 3]), r.choice([1, 2, 3])]
            dil = [r.choice([1, 1, 2]), r.choice([1, 1, 2])]
            stride = [r.choice([1, 1, 2]), r.choice([1, 1, 2])]
            pm = "zeros"
            pc = r.random()
            if pc < 0.4:
                pad = [0, 0]
            elif pc < 0.7:
                pad = [r.choice([0, 1, 2]), r.choice([0, 1, 2])]
            elif pc < 0.85:
                pad = "same"
                stride = [1, 1]
            else:
                pad = "valid"
            if r.random() < 0.2:
                pm = r.choice(["reflect", "replicate", "circular"])
            if isinstance(pad, list):
                eff = [pad[0], pad[1]]
            elif pad == "same":
                eff = None
            else:
                eff = [0, 0]
            if eff is not None:
                ho = (h + 2 * eff[0] - dil[0] * (ks[0] - 1) - 1) // stride[0] + 1
                wo = (wd + 2 * eff[1] - dil[1] * (ks[1] - 1) - 1) // stride[1] + 1
                if pm == "reflect" and (eff[0] >= h or eff[1] >= wd):
                    pm = "zeros"
                if pm == "circular" and (eff[0] > h or eff[1] > wd):
                    pm = "zeros"
            else:
                ho, wo = h, wd
                if pm == "reflect":
                    tot = [dil[0] * (ks[0] - 1), dil[1] * (ks[1] - 1)]
                    if tot[0] // 2 + tot[0] % 2 >= h or tot[1] // 2 + tot[1] % 2 >= wd:
                        pm = "zeros"
            if ho < 1 or wo < 1:
                ks, dil, stride, pad, pm = [1, 1], [1, 1], [1, 1], [0, 0], "zeros"
                ho, wo = h, wd
            items.append({"k": "conv", "ci": c, "co": co, "ks": ks, "stride": stride, "padding": pad, "dilation": dil, "groups": groups, "bias": r.random() < 0.7, "pm": pm})
            c, h, wd = co, ho, wo
            if r.random() < 0.5:
                a = self.act()
                if a["k"] not in ("softmax",):
                    items.append(a)
            if self.sw["ln"] and r.random() < 0.2:
                # LayerNorm over the trailing dims of the feature map (multi-dimensional normalized_shape)
                shape = r.choice([[c, h, wd], [h, wd], [wd]])
                items.append({"k": "ln", "shape": shape, "affine": r.random() < 0.85, "bias": r.random() < 0.8})
        if r.random() < 0.4:
            items.append({"k": "flat"})
            items.append({"k": "lin", "i": c * h * wd, "o": r.choice([4, 8, 10]), "bias": True})
        return self.wrap(items), in_shape

    # ------------------------------------------------------------ op makers
    def emit(self, ops, op):
        ops.append(op)
        self.nops += 1
        return op

    def new_dep(self, ops, quantize=True, family=None, force=None, like=None):
        from . import archs

        r = self.rng
        a = Abs(self.next_dep)
        self.next_dep += 1
        if like is not None:
            # a second model of the same architecture and dtype (quantized differently, calibrated side by side)
            a.family, a.arch, a.in_shape, a.dtype, a.wcls = like.family, copy.deepcopy(like.arch), list(like.in_shape), like.dtype, like.wcls
        else:
            a.family = family or r.choice(self.sw["family"])
            a.arch, a.in_shape = self.gen_mlp() if a.family == "mlp" else self.gen_cnn()
            a.dtype = r.choice(self.sw["dt"])
            a.wcls = r.choice(WCLS_RARE) if (self.sw["rare_w"] and r.random() < 0.5) else r.choice(WCLS)
        a.init = self.S.sub("init", a.id)
        a.leaves = [(p, s["k"]) for p, s in archs.walk_leaves(a.arch) if s["k"] in ("lin", "conv", "ln")]
        self.deps[a.id] = a
        self.emit(ops, {"op": "build", "dep": a.id, "arch": a.arch, "in_shape": a.in_shape, "dtype": a.dtype, "init": a.init, "wcls": a.wcls})
        if quantize:
            if self.sw.get("mixed_modes") and r.random() < 0.7:
                self.emit(ops, {"op": "set_mode", "dep": a.id, "seed": self.S.sub("mode", a.id) % (1 << 30), "frac": r.choice([0.3, 0.5, 0.8]), "train": True})
            if self.sw.get("pre_trainable") and r.random() < 0.6:
                # the float model arrives with some parameters already frozen by the caller (bias-only fine-tuning)
                self.emit(ops, {"op": "set_trainable", "dep": a.id, "weights": r.random() < 0.3, "biases": r.random() < 0.8})
            self.quantize(ops, a, force)
        return a

    def quantize(self, ops, a, force=None):
        r = self.rng
        force = force or {}
        a.weights = force.get("weights", r.choice(self.sw["wq"]))
        a.activations = force.get("activations", r.choice(self.sw["aq"]))
        # keep clear of two torch CPU kernels that are unsafe in this build (see oracles_l.unsafe_stack_config)
        from . import archs as _archs

        lin_in = [s["i"] for _, s in _archs.walk_leaves(a.arch) if s["k"] == "lin"]
        if a.weights == "qint8" and a.dtype == "bfloat16" and any(i % 4 == 0 for i in lin_in):
            a.weights = r.choice([q for q in WQ if q != "qint8"])
        filt = None
        tied = '"tie_to"' in __import__("json").dumps(a.arch)
        if (self.sw["filter"] and r.random() < 0.5 and len(a.leaves) > 1) or (tied and r.random() < 0.7 and len(a.leaves) > 1):
            filt = [p for p, _ in a.leaves if r.random() < 0.6] or [a.leaves[0][0]]
        a.qpaths = [p for p, k in a.leaves if (k in ("lin", "conv") or a.activations is not None) and (filt is None or p in filt)]
        a.quantized = True
        self.emit(ops, {"op": "quantize", "dep": a.id, "weights": a.weights, "activations": a.activations, "filter": filt, "optimizer": "explicit" if self.sw["explicit_opt"] and r.random() < 0.5 else "default"})

    def input_desc(self, a, fresh=None):
        r = self.rng
        if fresh is None:
            fresh = not a.inputs or r.random() < 0.5
        if not fresh and a.inputs:
            return copy.deepcopy(r.choice(a.inputs))
        if a.family == "cnn":
            lead = [r.choice([1, 2, 3])]
            if 0 in self.sw["lead_ranks"] and r.random() < 0.5:
                lead = []  # un-batched (C, H, W) input
        else:
            # C11 is quantified over input ranks 2..4: no un-batched rank-1 input to a Linear there
            ranks = [k for k in self.sw["lead_ranks"] if k > 0 or self.prop != "C11"] or [1]
            rank = r.choice(ranks)
            lead = [r.choice([1, 2, 3, 4, 17]) if i == 0 else r.choice([1, 2, 3]) for i in range(rank)]
        desc = {"seed": self.S.sub("input", a.id, len(a.inputs), self.nops), "lead": lead, "cls": r.choice(self.sw["icls"]), "mag": r.choice([1.0, 1.0, 0.1, 10.0, 1e-2, 1e2])}
        if self.sw.get("zero_batches") and r.random() < 0.15:
            desc["cls"] = "zeros"  # an all-zero (padding-only) batch
        if self.sw["qinput"] and r.random() < 0.3 and a.activations is not None:
            desc["q"] = r.choice(["qint8", "qfloat8"])
        a.inputs.append(desc)
        if len(a.inputs) > 4:
            a.inputs.pop(0)
        return copy.deepcopy(desc)

    def fault_desc(self, a):
        r = self.rng
        if not self.sw["fault_kinds"] or r.random() >= self.sw["fault_p"]:
            return None
        kind = r.choice(self.sw["fault_kinds"])
        exc = "interrupt" if (self.sw["interrupt"] and r.random() < 0.3) else "fault"
        if kind == "module":
            paths = a.qpaths or [p for p, _ in a.leaves]
            if not paths:
                return None
            phase = r.choice(["pre", "post", "inner", "inner"])
            return {"kind": "module", "path": r.choice(paths), "phase": phase, "n": r.choice([1, 1, 2, 3]) if phase == "inner" else 1, "exc": exc}
        if kind == "aten":
            return {"kind": "aten", "k": logu(r, 1, 300), "exc": exc}
        return {"kind": "line", "k": logu(r, 1, 4096), "exc": exc}

    def forward(self, ops, a, fresh=None, fault=True, inside_block=False):
        r = self.rng
        op = {"op": "forward", "dep": a.id, "input": self.input_desc(a, fresh)}
        g = self.sw["grad"] or r.choice(["no_grad", "enable_grad"])
        if g != "no_grad":
            op["grad"] = g
        if self.prop == "C13" and r.random() < 0.12:
            op["mutate_out"] = r.choice(["mul", "div", "zero"])
        if fault:
            fd = self.fault_desc(a)
            if fd:
                op["fault"] = fd
                if inside_block and r.random() < 0.4:
                    op["catch"] = True
        return self.emit(ops, op)

    def calib(self, ops, body_fn, depth, inst=None):
        r = self.rng
        st = self.sw["streamline"]
        op = {
            "op": "calib",
            "momentum": r.choice([0.9, 0.9, 0.5, 0.0, 0.1, 0.99, round(r.random(), 3)]),
            "streamline": r.random() < 0.5 if st is None else st,
            "inst": inst or "fresh",
            "body": [],
        }
        if r.random() < 0.05:
            op["debug"] = True
        self.emit(ops, op)
        body_fn(op["body"], depth + 1)
        return op

    def pick(self, pred=lambda a: True):
        c = [a for a in self.deps.values() if pred(a)]
        return self.rng.choice(c) if c else None


def weighted(rng, table):
    tot = sum(w for _, w in table)
    x = rng.random() * tot
    for k, w in table:
        x -= w
        if x <= 0:
            return k
    return table[-1][0]


# ------------------------------------------------------------------------------------------------
# property profiles


def plan_c13(P: Planner):
    r = P.rng
    ops = []
    n0 = r.randint(1, 2)
    for _ in range(n0):
        a = P.new_dep(ops)
        if r.random() < 0.4:
            P.emit(ops, {"op": "freeze", "dep": a.id})
            a.frozen = True
        if r.random() < 0.7:
            P.forward(ops, a, fresh=True, fault=False)
    allow_reenter = P.cfg.get("reenter", True)

    def body(bops, depth):
        n = r.randint(1, 4)
        for _ in range(n):
            k = weighted(r, [("forward", 6), ("calib", 2 if depth < 3 else 0), ("noext", 1), ("lib", 1), ("newdep", 0.5 if len(P.deps) < 3 else 0), ("freeze", 0.5), ("userctx", 0.5 if depth < 2 else 0)])
            a = P.pick(lambda a: a.quantized)
            if k == "forward" and a:
                P.forward(bops, a, inside_block=True)
            elif k == "calib":
                inst = weighted(r, [("fresh", 6), ("reuse", 3 if allow_reenter else 0)])
                blk = P.calib(bops, body, depth, inst=inst)
                if r.random() < 0.3:
                    blk["catch"] = True  # the inner block is left by the exception, the outer one normally
            elif k == "noext":
                op = P.emit(bops, {"op": "noext", "body": []})
                body(op["body"], depth)
                if r.random() < 0.3:
                    op["catch"] = True
            elif k == "lib":
                lib(bops)
            elif k == "userctx":
                userctx(bops, depth)
            elif k == "newdep":
                P.new_dep(bops)
            elif k == "freeze" and a:
                P.emit(bops, {"op": "freeze", "dep": a.id})
                a.frozen = True

    def userctx(uops, depth):
        # the caller's own global hooks and function mode, installed around further blocks
        op = P.emit(uops, {"op": "userctx", "hooks": r.choice([["pre", "post"], ["post"], ["pre"], ["post", "pre", "post"], []]), "mode": r.random() < 0.5, "body": []})
        if not op["hooks"]:
            op["mode"] = True
        body(op["body"], depth + 1)
        if r.random() < 0.3:
            op["catch"] = True

    def lib(lops):
        fn = r.choice(["quantize_weight", "quantize_activation", "absmax_scale"])
        shape = [r.choice([1, 4, 8, 33]), r.choice([8, 16, 128, 256])]
        op = {"op": "lib", "fn": fn, "shape": shape, "seed": P.S.sub("lib", P.nops), "dtype": r.choice(P.sw["dt"]), "cls": r.choice(ICLS)}
        op["view"] = r.choice([None, None, "t", "strided", "0d"])
        if fn == "quantize_weight":
            if op["view"] == "0d":
                op["view"] = None
            op["qtype"] = r.choice(WQ)
            op["axis"] = r.choice([0, -1])
            if op["qtype"] in ("qint2", "qint4") and r.random() < 0.5:
                op["group_size"] = r.choice([8, 32, 64])
        elif fn == "quantize_activation":
            op["qtype"] = r.choice(AQ)
            op["scale"] = r.choice(["absmax", "absmax", "one", "fixed"])
        else:
            op["qtype"] = r.choice(AQ)
            op["axis"] = r.choice([None, 0, -1])
        P.emit(lops, op)

    n = r.randint(3, 9)
    for _ in range(n):
        k = weighted(r, [("calib", 5), ("forward", 4), ("noext", 1), ("lib", 1), ("newdep", 0.7 if len(P.deps) < 3 else 0), ("freeze", 0.6), ("reuse_calib", 1.5), ("refill", 1.2), ("userctx", 1.2), ("calib_pair", 0.8), ("bad_call", 0.8)])
        a = P.pick(lambda a: a.quantized)
        if k == "bad_call":
            kind = r.choice(["group", "optimizer", "scale", "shape"])
            op = {"op": "bad_call", "kind": kind, "seed": P.S.sub("bad", P.nops) % (1 << 30)}
            if kind == "shape" and a:
                op["dep"] = a.id
            P.emit(ops, op)
            continue
        if k == "userctx":
            userctx(ops, 0)
            continue
        if k == "calib_pair":
            op = P.emit(ops, {"op": "calib_pair", "m1": r.choice([0.9, 0.5, 0.0]), "m2": r.choice([0.9, 0.3]), "s1": r.random() < 0.5, "s2": r.random() < 0.5, "body": []})
            body(op["body"], 2)
            continue
        if k == "refill" and a and a.inputs:
            prev = copy.deepcopy(r.choice(a.inputs))
            if not prev.get("q"):
                nxt = P.input_desc(a, fresh=True)
                nxt.pop("q", None)
                nxt["lead"] = prev["lead"]
                P.emit(ops, {"op": "forward", "dep": a.id, "input": prev})
                P.emit(ops, {"op": "refill_forward", "dep": a.id, "input": prev, "input2": nxt})
        elif k == "calib":
            P.calib(ops, body, 0)
        elif k == "reuse_calib":
            P.calib(ops, body, 0, inst="reuse")
        elif k == "forward" and a:
            P.forward(ops, a, fresh=r.random() < 0.3)
        elif k == "noext":
            op = P.emit(ops, {"op": "noext", "body": []})
            body(op["body"], 0)
        elif k == "lib":
            lib(ops)
        elif k == "newdep":
            P.new_dep(ops)
        elif k == "freeze" and a:
            P.emit(ops, {"op": "freeze", "dep": a.id})
            a.frozen = True
    # closing probes outside any context: repeatability
    for a in list(P.deps.values()):
        if a.quantized and a.inputs and r.random() < 0.8:
            P.forward(ops, a, fresh=False, fault=False)
    return ops


PROFILES = {"C13": plan_c13}


def make_plan(prop, seed, cfg):
    P = Planner(prop, seed, cfg)
    ops = PROFILES[cfg.get("profile", prop)](P)
    return {"engine": "L", "prop": prop, "seed": seed, "cfg": cfg, "swarm": P.sw, "ops": ops}


def generate(prop, seed, cfg):
    if cfg.get("mode") == "sweep":
        from . import sweep_l

        yield from sweep_l.generate(prop, seed, cfg)
    else:
        yield make_plan(prop, seed, cfg)


# ------------------------------------------------------------------------------------------------
# argument simplifications for the shrinker


def _walk(ops):
    for op in ops:
        yield op
        if "body" in op:
            yield from _walk(op["body"])


def simplifications(plan):
    """Yield candidate plans with one argument simplified."""
    flat = list(_walk(plan["ops"]))
    for i, op in enumerate(flat):
        cands = []
        if op["op"] == "forward":
            if "fault" in op and op["fault"].get("k", 1) > 1:
                for k2 in (1, op["fault"]["k"] // 2, op["fault"]["k"] - 1):
                    if 1 <= k2 < op["fault"]["k"]:
                        cands.append(("fault.k", k2))
            if op.get("grad"):
                cands.append(("grad", None))
            if op["input"].get("lead") and len(op["input"]["lead"]) > 1:
                cands.append(("input.lead", op["input"]["lead"][:1]))
            if op["input"].get("mag", 1.0) != 1.0:
                cands.append(("input.mag", 1.0))
            if op["input"].get("q"):
                cands.append(("input.q", None))
        elif op["op"] == "build":
            if op["dtype"] != "float32":
                cands.append(("dtype", "float32"))
            if op.get("wcls", "noise") != "noise":
                cands.append(("wcls", "noise"))
        elif op["op"] == "quantize":
            if op.get("weights") not in ("qint8",):
                cands.append(("weights", "qint8"))
            if op.get("activations") not in (None, "qint8"):
                cands.append(("activations", "qint8"))
            if op.get("activations") is not None:
                cands.append(("activations", None))
            if op.get("filter") is not None:
                cands.append(("filter", None))
            if op.get("optimizer") == "explicit":
                cands.append(("optimizer", "default"))
        elif op["op"] == "calib":
            if op.get("momentum") != 0.9:
                cands.append(("momentum", 0.9))
            if op.get("debug"):
                cands.append(("debug", False))
        for key, val in cands:
            new = copy.deepcopy(plan)
            tgt = list(_walk(new["ops"]))[i]
            ks = key.split(".")
            cur = tgt
            for kk in ks[:-1]:
                cur = cur[kk]
            if val is None and ks[-1] in ("grad", "q"):
                cur.pop(ks[-1], None)
            else:
                cur[ks[-1]] = val
            yield new


# ------------------------------------------------------------------------------------------------
# generic history pieces used by the lifecycle profiles (C08-C12)


def h_probe(P, ops, a, n=2):
    """Forwards on (re)used inputs: fill / check the output memo."""
    for i in range(n):
        P.forward(ops, a, fresh=(len(a.inputs) <= i), fault=False)


def h_calibrate(P, ops, a, batches=None, momentum=None, streamline=None, faults=False):
    r = P.rng
    nb = batches or r.randint(1, 3)

    def body(bops, depth):
        for _ in range(nb):
            op = P.forward(bops, a, fresh=True, fault=faults, inside_block=True)
            if "fault" in op:
                op["catch"] = r.random() < 0.7
    op = P.calib(ops, body, 0)
    if momentum is not None:
        op["momentum"] = momentum
    if streamline is not None:
        op["streamline"] = streamline
    a.calibrated = True
    return op


def h_freeze(P, ops, a, partial_p=0.3, fault=False):
    r = P.rng
    op = {"op": "freeze", "dep": a.id}
    if a.qpaths and r.random() < partial_p:
        op["subset"] = [p for p in a.qpaths if r.random() < 0.5] or [a.qpaths[0]]
    else:
        a.frozen = True
    if fault and P.sw["fault_kinds"] and r.random() < P.sw["fault_p"]:
        op["fault"] = {"kind": "aten", "k": logu(r, 1, 120), "exc": "fault"}
        op["catch"] = True
    P.emit(ops, op)
    return op


def h_save(P, ops, a, ser=None, fault=False):
    r = P.rng
    fid = P.next_fid
    P.next_fid += 1
    op = {"op": "save", "dep": a.id, "fid": fid, "ser": ser or r.choice(["pickle_bytes", "pickle_file", "safetensors", "safetensors", "direct", "held", "held"])}
    if fault and r.random() < 0.3:
        op["fault"] = {"kind": "write_fail", "offset": logu(r, 1, 20000), "err": r.choice(["ENOSPC", "EIO"])}
    P.emit(ops, op)
    P.files[fid] = a
    return fid


def h_load(P, ops, fid, target=None, restart=None):
    r = P.rng
    src = P.files[fid]
    a = Abs(P.next_dep)
    P.next_dep += 1
    for k in ("family", "in_shape", "weights", "activations", "dtype", "arch", "wcls", "leaves", "qpaths", "frozen", "calibrated"):
        setattr(a, k, copy.deepcopy(getattr(src, k)))
    a.quantized = True
    a.inputs = copy.deepcopy(src.inputs)
    op = {
        "op": "load",
        "fid": fid,
        "new": a.id,
        "target": target or r.choice(["default", "same", "same", "requantize", "meta_assign"]),
        "assign": r.random() < 0.3,
        "weights_only": r.random() < 0.7,
        "init": P.S.sub("reinit", a.id),
    }
    if op["target"] == "same" and r.random() < 0.3:
        op["warm"] = {"seed": P.S.sub("warm", a.id) % (1 << 30), "lead": [r.choice([1, 2, 3])] if src.family == "cnn" else [r.choice([1, 2, 4])]}
    if r.random() < 0.4:
        op["reorder"] = r.choice(["reverse", "strings_first", "perm"])
        op["perm_seed"] = P.S.sub("perm", a.id) % 100000
    # sometimes load into a model that already went through a load (same architecture) instead of a fresh one
    prev = [b for b in P.deps.values() if b is not src and getattr(b, "loaded", False) and b.arch == src.arch and b.dtype == src.dtype]
    if prev and r.random() < 0.35:
        b = r.choice(prev)
        op["into"] = b.id
        op["target"] = "same"
        P.emit(ops, op)
        for k in ("weights", "activations", "frozen", "calibrated"):
            setattr(b, k, copy.deepcopy(getattr(src, k)))
        b.inputs = copy.deepcopy(src.inputs)
        return b
    if restart if restart is not None else r.random() < 0.4:
        op["restart"] = True
        P.deps.pop(src.id, None)
    P.emit(ops, op)
    a.loaded = True
    P.deps[a.id] = a
    return a


def h_wupdate(P, ops, a):
    r = P.rng
    P.emit(ops, {"op": "wupdate", "dep": a.id, "how": r.choice(["add_", "copy_", "param_add_"]), "seed": P.S.sub("wu", P.nops) % (1 << 30), "mag": r.choice([0.5, 1.0, 0.1])})


def h_train(P, ops, a, lr_p=0.5):
    r = P.rng
    desc = P.input_desc(a, fresh=r.random() < 0.6)
    desc.pop("q", None)
    op = {"op": "train", "dep": a.id, "input": desc, "gseed": P.S.sub("g", P.nops) % (1 << 30), "gmag": r.choice([1.0, 1.0, 0.1, 10.0])}
    if r.random() < 0.35:
        op["noncontig"] = True
    elif r.random() < 0.4:
        op["loss"] = r.choice(["sum", "sum", "mean", "twice", "zero", "last"])
    if r.random() < 0.3:
        op["peek"] = True
    if a.family == "cnn" and r.random() < 0.3:
        op["cl"] = True
    if r.random() < 0.2:
        d2 = P.input_desc(a, fresh=True)
        d2.pop("q", None)
        d2["lead"] = desc["lead"]
        op["input2"] = d2
    if r.random() < lr_p:
        op["lr"] = r.choice([0.1, 0.5, 1.0])
    P.emit(ops, op)


def lifecycle(P, ops, table, n, faults=False):
    """A history of n top-level ops drawn from the weighted table over the live deployments."""
    r = P.rng
    for _ in range(n):
        k = weighted(r, table)
        a = P.pick(lambda a: a.quantized)
        if a is None:
            a = P.new_dep(ops)
        if k == "forward":
            P.forward(ops, a, fault=faults)
        elif k == "probe":
            h_probe(P, ops, a, r.randint(1, 2))
        elif k == "calib":
            h_calibrate(P, ops, a, faults=faults)
        elif k == "freeze":
            h_freeze(P, ops, a, fault=faults)
            h_probe(P, ops, a, 1)
        elif k == "deepcopy":
            b = Abs(P.next_dep)
            P.next_dep += 1
            for kk in ("family", "in_shape", "weights", "activations", "dtype", "arch", "wcls", "leaves", "qpaths", "frozen", "calibrated", "quantized"):
                setattr(b, kk, copy.deepcopy(getattr(a, kk)))
            b.inputs = copy.deepcopy(a.inputs)
            P.emit(ops, {"op": "deepcopy", "dep": a.id, "new": b.id})
            P.deps[b.id] = b
            h_probe(P, ops, b, 1)
        elif k == "to_cpu":
            P.emit(ops, {"op": "to", "dep": a.id, "how": r.choice(["to_cpu", "cpu"])})
            h_probe(P, ops, a, 1)
        elif k == "to_dtype":
            nd = r.choice(DT)
            P.emit(ops, {"op": "to", "dep": a.id, "how": "dtype", "dtype": nd})
            a.dtype = nd
        elif k == "wupdate":
            if not a.frozen:
                h_wupdate(P, ops, a)
                P.forward(ops, a, fresh=False, fault=False)
        elif k == "train":
            h_train(P, ops, a)
        elif k == "bad_call":
            kind = r.choice(["group", "optimizer", "scale", "shape"])
            op = {"op": "bad_call", "kind": kind, "seed": P.S.sub("bad", P.nops) % (1 << 30)}
            if kind == "shape":
                op["dep"] = a.id
            P.emit(ops, op)
        elif k == "resume":
            # checkpoint resume: the model's own checkpoint is loaded back into it, training goes on
            fid = h_save(P, ops, a, ser=r.choice(["pickle_bytes", "held", "safetensors", "pickle_file"]))
            P.emit(ops, {"op": "load", "fid": fid, "new": a.id, "into": a.id, "target": "same", "assign": False, "weights_only": r.random() < 0.7, "init": 1})
            h_train(P, ops, a)
        elif k == "trainable":
            P.emit(ops, {"op": "set_trainable", "dep": a.id, "weights": r.random() < 0.4, "biases": r.random() < 0.8})
            h_train(P, ops, a, lr_p=0.2)
        elif k == "calib_train":
            # training while calibrating (quantization-aware fine-tuning inside the context), incl. two forwards
            # sharing one backward
            def tbody(bops, depth, a=a):
                for _ in range(r.randint(1, 2)):
                    h_train(P, bops, a, lr_p=0.3)
                    if r.random() < 0.5:
                        bops[-1]["input2"] = dict(P.input_desc(a, fresh=True), lead=bops[-1]["input"]["lead"])
                        bops[-1]["input2"].pop("q", None)
            op = P.calib(ops, tbody, 0)
            op["streamline"] = False
        elif k == "state_dict":
            P.emit(ops, {"op": "state_dict", "dep": a.id, "keep_vars": r.random() < 0.3})
        elif k == "save":
            h_probe(P, ops, a, 1)
            h_save(P, ops, a, fault=faults)
        elif k == "saveload":
            h_probe(P, ops, a, 1)
            fid = h_save(P, ops, a, fault=faults)
            b = h_load(P, ops, fid)
            h_probe(P, ops, b, 2)
        elif k == "load":
            if P.files:
                fid = r.choice(sorted(P.files))
                b = h_load(P, ops, fid, restart=False)
                h_probe(P, ops, b, 1)
        elif k == "newdep":
            if len(P.deps) < 3:
                b = P.new_dep(ops)
                if b.activations is not None and r.random() < 0.7:
                    h_calibrate(P, ops, b)
                h_probe(P, ops, b, 1)
        elif k == "lib":
            pass


def prelude(P, ops, n=None, calib_p=0.75, force=None, family=None):
    """Build/quantize 1-2 deployments, usually calibrate those with quantized activations, probe them."""
    r = P.rng
    out = []
    for _ in range(n or r.choice([1, 1, 2])):
        a = P.new_dep(ops, force=force, family=family)
        if a.activations is not None and r.random() < calib_p:
            h_calibrate(P, ops, a)
        h_probe(P, ops, a, 2)
        out.append(a)
    return out


def plan_c08(P):
    r = P.rng
    ops = []
    prelude(P, ops)
    table = [("forward", 8), ("calib", 2), ("freeze", 1.5), ("saveload", 1), ("wupdate", 1.5), ("newdep", 1.5), ("train", 0.7), ("deepcopy", 0.3), ("to_cpu", 0.3), ("to_dtype", 0.4), ("bad_call", 0.5)]
    lifecycle(P, ops, table, r.randint(3, 9), faults=bool(P.cfg.get("faults")))
    return ops


def plan_c09(P):
    r = P.rng
    ops = []
    P.sw["filter"] = P.sw["filter"] and r.random() < 0.5
    prelude(P, ops)
    table = [("freeze", 6), ("probe", 3), ("deepcopy", 1.5), ("to_cpu", 1.5), ("saveload", 1), ("wupdate", 1), ("calib", 1), ("newdep", 1), ("state_dict", 0.5), ("bad_call", 0.4)]
    lifecycle(P, ops, table, r.randint(3, 9), faults=bool(P.cfg.get("faults")))
    for a in list(P.deps.values()):
        if a.quantized:
            if r.random() < 0.5:
                P.emit(ops, {"op": "freeze", "dep": a.id})
            h_probe(P, ops, a, 2)
    return ops


def plan_c10(P):
    r = P.rng
    ops = []
    P.sw["filter"] = False
    deps = prelude(P, ops)
    for a in deps:
        if r.random() < 0.5:
            h_freeze(P, ops, a, partial_p=0.15)
            h_probe(P, ops, a, 1)
    if r.random() < 0.2:
        # two checkpoints of the same architecture with different contents, loaded one after the other into the
        # same model; the first one is handed over in memory (its tensors are the source model's own)
        a = deps[0]
        if not a.frozen:
            P.emit(ops, {"op": "freeze", "dep": a.id})
            a.frozen = True
        a2 = P.new_dep(ops, like=a, force={"weights": a.weights if r.random() < 0.6 else r.choice(WQ), "activations": a.activations})
        if a2.activations is not None and r.random() < 0.6:
            h_calibrate(P, ops, a2)
        P.emit(ops, {"op": "freeze", "dep": a2.id})
        a2.frozen = True
        h_probe(P, ops, a, 1)
        f1 = h_save(P, ops, a, ser=r.choice(["direct", "direct", "pickle_bytes", "held", "held", "held"]))
        f2 = h_save(P, ops, a2)
        b = h_load(P, ops, f1, target=r.choice(["same", "same", "requantize"]), restart=False)
        h_probe(P, ops, b, 1)
        if r.random() < 0.3:
            P.emit(ops, {"op": "to", "dep": b.id, "how": "dtype", "dtype": r.choice(DT)})
        P.emit(ops, {"op": "load", "fid": f2, "new": b.id, "into": b.id, "target": "same", "assign": r.random() < 0.2, "weights_only": True, "init": 1})
        h_probe(P, ops, a, 1)
        h_save(P, ops, a)
        if r.random() < 0.6:
            # the first checkpoint is used once more, for a third model: it must still be what was saved
            c = h_load(P, ops, f1, target=r.choice(["same", "requantize"]), restart=False)
            h_probe(P, ops, c, 1)
    table = [("saveload", 8), ("load", 1.5), ("freeze", 1), ("probe", 1), ("wupdate", 0.7), ("calib", 0.7), ("state_dict", 0.7), ("newdep", 0.7), ("save", 0.7), ("to_dtype", 0.4), ("deepcopy", 0.3), ("to_cpu", 0.3), ("bad_call", 0.4)]
    lifecycle(P, ops, table, r.randint(2, 6), faults=bool(P.cfg.get("faults")))
    return ops


def plan_c11(P):
    r = P.rng
    ops = []
    P.sw["qinput"] = False
    deps = prelude(P, ops, calib_p=0.85)
    table = [("train", 8), ("wupdate", 3), ("forward", 2), ("freeze", 1), ("newdep", 0.7), ("calib", 1.2), ("saveload", 0.3), ("calib_train", 1.5), ("trainable", 1.0), ("bad_call", 0.8), ("resume", 0.8)]
    lifecycle(P, ops, table, r.randint(3, 9), faults=False)
    return ops


def plan_c12(P):
    r = P.rng
    ops = []
    if None in P.sw["aq"]:
        P.sw["aq"] = [x for x in P.sw["aq"] if x is not None] or ["qint8"]
    P.sw["filter"] = False
    P.sw["qinput"] = False  # the property speaks of float batches
    st = r.choice([False, False, False, True])
    qmax = {"qint8": 127.0, "qfloat8": 448.0, "qfloat8_e4m3fn": 448.0, "qfloat8_e5m2": 57344.0}
    ndeps = r.choice([1, 1, 2])
    deps = [P.new_dep(ops)]
    twin = None
    if ndeps == 2:
        if r.random() < 0.5:
            other_aq = [q for q in AQ if q != deps[0].activations]
            twin = P.new_dep(ops, like=deps[0], force={"activations": r.choice(other_aq)})
            deps.append(twin)
        else:
            deps.append(P.new_dep(ops))
    nctx = r.randint(1, 3)
    faults = bool(P.cfg.get("faults"))
    for c in range(nctx):
        m = r.choice([0.9, 0.9, 0.5, 0.0, 0.1, 0.99, round(r.random(), 3)])
        a = r.choice(deps)
        nb = r.choice([1, 2, 2, 3, 4, 8])

        def body(bops, depth, a=a, nb=nb):
            base = r.choice([1e-3, 1e-2, 0.1, 1.0, 10.0, 100.0, 1e3])
            prev_desc = None
            for i in range(nb):
                op = P.forward(bops, a, fresh=True, fault=faults, inside_block=True)
                if "fault" in op:
                    op["catch"] = r.random() < 0.8
                desc = op["input"]
                desc.pop("q", None)
                if i > 0 and prev_desc is not None and prev_desc["lead"] == desc["lead"] and r.random() < 0.25:
                    op["refill_of"] = copy.deepcopy(prev_desc)  # the same buffer, refilled with the next batch
                if r.random() < 0.35 and a.activations:
                    desc["cls"] = "peak"
                    desc["mag"] = qmax[a.activations] * 2.0 ** r.choice([0, 0, 1, -1, -3, 2])
                else:
                    desc["mag"] = base * r.choice([1.0, 2.0, 4.0, 0.5, 0.25, 3.0])
                prev_desc = copy.deepcopy(desc) if "fault" not in op else None
                if twin is not None and a in (deps[0], twin) and twin in deps and "fault" not in op and r.random() < 0.5:
                    # the same batch object goes through the sibling model as well
                    b = twin if a is deps[0] else deps[0]
                    P.emit(bops, {"op": "forward", "dep": b.id, "input": copy.deepcopy(desc), "same_tensor": True})
                elif len(deps) > 1 and r.random() < 0.2:
                    P.forward(bops, r.choice(deps), fresh=True, fault=False)

        op = P.calib(ops, body, 0, inst="reuse" if (c > 0 and r.random() < 0.25) else "fresh")
        op["momentum"] = m
        op["streamline"] = st
        op.pop("debug", None)
        a.calibrated = True
        if a.family == "mlp" and r.random() < 0.3:
            # a later context calibrates only the tail of the chain, which now receives a float input
            from . import archs as _archs

            lins = [(pth, sp) for pth, sp in _archs.walk_leaves(a.arch) if sp["k"] == "lin" and pth in a.qpaths]
            if len(lins) >= 2:
                pth, sp = lins[-1]

                def sbody(bops, depth, a=a, pth=pth, sp=sp):
                    for _ in range(r.randint(1, 2)):
                        dsc = {"seed": P.S.sub("subin", P.nops), "lead": [r.choice([1, 2, 3])], "cls": r.choice(ICLS), "mag": r.choice([1.0, 0.1, 10.0]), "feat": [sp["i"]]}
                        P.emit(bops, {"op": "forward", "dep": a.id, "input": dsc, "sub": pth})

                op2 = P.calib(ops, sbody, 0)
                op2["momentum"] = r.choice([0.9, 0.5, 0.0])
                op2["streamline"] = st
                op2.pop("debug", None)
        if a.family == "mlp" and a.activations and r.random() < 0.3:
            # stage-wise calibration: a producer's outputs are kept, the producer runs again on another batch, and only
            # then is the kept tensor fed to its consumer
            from . import archs as _archs

            lins = [(pth, sp) for pth, sp in _archs.walk_leaves(a.arch) if sp["k"] == "lin" and pth in a.qpaths]
            pairs = [(lins[i], lins[i + 1]) for i in range(len(lins) - 1) if lins[i][1]["o"] == lins[i + 1][1]["i"]]
            if pairs:
                (pa, sa), (pb, sb) = r.choice(pairs)

                def gbody(bops, depth, a=a, pa=pa, sa=sa, pb=pb):
                    for j in range(r.randint(1, 2)):
                        lead = [r.choice([1, 2, 3])]
                        d1 = {"seed": P.S.sub("stage", P.nops), "lead": lead, "cls": r.choice(ICLS), "mag": r.choice([1.0, 0.1]), "feat": [sa["i"]]}
                        d2 = {"seed": P.S.sub("stage2", P.nops), "lead": lead, "cls": r.choice(ICLS), "mag": r.choice([10.0, 100.0, 3.0]), "feat": [sa["i"]]}
                        P.emit(bops, {"op": "forward", "dep": a.id, "input": d1, "sub": pa, "keep": f"s{j}"})
                        P.emit(bops, {"op": "forward", "dep": a.id, "input": d2, "sub": pa})
                        P.emit(bops, {"op": "forward", "dep": a.id, "input": d1, "sub": pb, "input_from": f"s{j}"})

                op3 = P.calib(ops, gbody, 0)
                op3["momentum"] = r.choice([0.9, 0.5, 0.0])
                op3["streamline"] = False
                op3.pop("debug", None)
        if r.random() < 0.3:
            fid = h_save(P, ops, a)
            b = h_load(P, ops, fid, target=r.choice(["same", "same", "requantize", "default"]), restart=True)
            deps = [b if x is a else x for x in deps]
        elif r.random() < 0.2:
            P.forward(ops, a, fresh=True, fault=False)
    return ops


PROFILES.update({"C08": plan_c08, "C09": plan_c09, "C10": plan_c10, "C11": plan_c11, "C12": plan_c12})
