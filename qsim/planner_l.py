"""Planner of engine L: seed -> plan (swarm configuration, architecture, op sequence, faults).

The planner keeps a small abstract model of the world so that most emitted operations are valid;
the executor stays the authority (invalid ops are skipped), which is what makes any sub-list of a
plan a valid plan for the shrinker."""
import copy
import math

from .core import Streams

WQ = ["qint8", "qint4", "qint2", "qfloat8", "qfloat8_e4m3fn", "qfloat8_e5m2"]
AQ = ["qint8", "qfloat8", "qfloat8_e4m3fn", "qfloat8_e5m2"]
DT = ["float32", "float16", "bfloat16"]
FEATS_COMMON = [1, 8, 16, 31, 32, 33, 48, 64]
FEATS_WIDE = [96, 128, 129, 136, 160, 192, 256, 288, 320]
ACTS = ["relu", "gelu", "silu", "softmax", "id", "drop", "scale"]
WCLS = ["noise", "noise", "noise", "uniform", "onesided", "offset", "exact"]
WCLS_RARE = ["const", "zero_rows"]
ICLS = ["noise", "uniform", "onesided", "exact", "peak"]


def subset(rng, items, p=0.5, at_least=1):
    s = [x for x in items if rng.random() < p]
    while len(s) < at_least:
        s.append(rng.choice(items))
    return s


def logu(rng, lo, hi):
    return int(round(math.exp(rng.uniform(math.log(lo), math.log(hi)))))


class Abs:
    """Abstract deployment state kept by the planner."""

    def __init__(self, did):
        self.id = did
        self.quantized = False
        self.frozen = False
        self.calibrated = False
        self.leaves = []  # (path, kind) of quantizable-kind leaves
        self.qpaths = []  # paths that became quantized modules
        self.inputs = []  # input descriptors used so far (memo candidates)
        self.family = None
        self.in_shape = None
        self.weights = None
        self.activations = None
        self.dtype = "float32"
        self.arch = None
        self.wcls = "noise"
        self.init = 0


class Planner:
    def __init__(self, prop, seed, cfg):
        self.prop = prop
        self.seed = seed
        self.cfg = cfg
        self.S = Streams(seed)
        self.rng = self.S.rng("plan")
        self.deps = {}
        self.next_dep = 0
        self.next_fid = 0
        self.files = {}
        self.nops = 0
        r = self.S.rng("swarm")
        self.sw = {
            "wq": subset(r, WQ, 0.45),
            "aq": subset(r, AQ, 0.5) + ([None] if r.random() < 0.6 else []),
            "dt": subset(r, DT, 0.5),
            "acts": subset(r, ACTS, 0.5),
            "family": subset(r, ["mlp", "cnn"], 0.6),
            "wide": r.random() < 0.35,
            "rare_w": r.random() < 0.15,
            "icls": subset(r, ICLS, 0.5),
            "fault_kinds": subset(r, cfg.get("fault_kinds", ["module", "aten", "line"]), 0.6) if cfg.get("faults") else [],
            "fault_p": r.choice([0.15, 0.3, 0.5]) if cfg.get("faults") else 0.0,
            "interrupt": r.random() < 0.5,
            "streamline": r.choice([True, False, None]),
            "grad": r.choice(["no_grad", "no_grad", "enable_grad", None]),
            "containers": subset(r, ["seq", "chain", "res"], 0.6),
            "ln": r.random() < 0.6,
            "explicit_opt": r.random() < 0.3,
            "filter": r.random() < 0.3,
            "qinput": r.random() < 0.3,
            "lead_ranks": subset(r, [1, 2, 3], 0.5),
        }
        for k, v in (cfg.get("force") or {}).items():
            self.sw[k] = v

    # ------------------------------------------------------------ architectures
    def feat(self):
        r = self.rng
        if self.sw["wide"] and r.random() < 0.4:
            return r.choice(FEATS_WIDE)
        return r.choice(FEATS_COMMON)

    def gen_mlp(self):
        r = self.rng
        f = self.feat()
        in_shape = [f]
        items = []
        n = r.randint(1, 4)
        for _ in range(n):
            c = r.random()
            if c < 0.55:
                o = self.feat()
                items.append({"k": "lin", "i": f, "o": o, "bias": r.random() < 0.7, "sub": r.random() < 0.1})
                f = o
            elif c < 0.7 and self.sw["ln"]:
                items.append({"k": "ln", "shape": [f], "affine": r.random() < 0.85, "bias": r.random() < 0.8})
            elif c < 0.85 and "res" in self.sw["containers"]:
                body = [{"k": "lin", "i": f, "o": f, "bias": r.random() < 0.7}]
                if r.random() < 0.5:
                    body.append(self.act())
                items.append({"k": "res", "body": {"k": "seq", "c": body}})
            else:
                items.append(self.act())
        if not any(self.has_quantizable(i) for i in items):
            items.append({"k": "lin", "i": f, "o": self.feat(), "bias": True})
        return self.wrap(items), in_shape

    def act(self):
        r = self.rng
        k = r.choice(self.sw["acts"])
        if k == "scale":
            return {"k": "scale", "c": r.choice([0.5, 2.0, -1.0, 3.0])}
        return {"k": k}

    def has_quantizable(self, spec):
        if spec["k"] in ("lin", "conv"):
            return True
        if spec["k"] in ("seq", "chain"):
            return any(self.has_quantizable(c) for c in spec["c"])
        if spec["k"] == "res":
            return self.has_quantizable(spec["body"])
        return False

    def wrap(self, items):
        """Nest a flat list into containers (depth <= 3)."""
        r = self.rng
        kinds = [k for k in self.sw["containers"] if k in ("seq", "chain")] or ["seq"]
        if len(items) >= 3 and r.random() < 0.5:
            cut = r.randint(1, len(items) - 1)
            inner = {"k": r.choice(kinds), "c": items[:cut]}
            if len(inner["c"]) >= 2 and r.random() < 0.3:
                c2 = r.randint(1, len(inner["c"]) - 1)
                inner["c"] = [{"k": r.choice(kinds), "c": inner["c"][:c2]}] + inner["c"][c2:]
            items = [inner] + items[cut:]
        return {"k": r.choice(kinds), "c": items}

    def gen_cnn(self):
        r = self.rng
        c = r.choice([1, 2, 3, 4, 8])
        h, wd = r.choice([5, 6, 8, 9]), r.choice([5, 6, 8, 9])
        in_shape = [c, h, wd]
        items = []
        n = r.randint(1, 3)
        for _ in range(n):
            groups = 1
            co = r.choice([1, 2, 4, 6, 8, 16])
            if r.random() < 0.25:
                for g in (2, 3, 4):
                    if c % g == 0 and co % g == 0 and r.random() < 0.5:
                        groups = g
            ks = [r.choice([1, 2, 3]), r.choice([1, 2, 3])]
            dil = [r.choice([1, 1, 2]), r.choice([1, 1, 2])]
            stride = [r.choice([1, 1, 2]), r.choice([1, 1, 2])]
            pm = "zeros"
            pc = r.random()
            if pc < 0.4:
                pad = [0, 0]
            elif pc < 0.7:
                pad = [r.choice([0, 1, 2]), r.choice([0, 1, 2])]
            elif pc < 0.85:
                pad = "same"
                stride = [1, 1]
            else:
                pad = "valid"
            if r.random() < 0.2:
                pm = r.choice(["reflect", "replicate", "circular"])
            if isinstance(pad, list):
                eff = [pad[0], pad[1]]
            elif pad == "same":
                eff = None
            else:
                eff = [0, 0]
            if eff is not None:
                ho = (h + 2 * eff[0] - dil[0] * (ks[0] - 1) - 1) // stride[0] + 1
                wo = (wd + 2 * eff[1] - dil[1] * (ks[1] - 1) - 1) // stride[1] + 1
                if pm == "reflect" and (eff[0] >= h or eff[1] >= wd):
                    pm = "zeros"
                if pm == "circular" and (eff[0] > h or eff[1] > wd):
                    pm = "zeros"
            else:
                ho, wo = h, wd
                if pm == "reflect":
                    tot = [dil[0] * (ks[0] - 1), dil[1] * (ks[1] - 1)]
                    if tot[0] // 2 + tot[0] % 2 >= h or tot[1] // 2 + tot[1] % 2 >= wd:
                        pm = "zeros"
            if ho < 1 or wo < 1:
                ks, dil, stride, pad, pm = [1, 1], [1, 1], [1, 1], [0, 0], "zeros"
                ho, wo = h, wd
            items.append({"k": "conv", "ci": c, "co": co, "ks": ks, "stride": stride, "padding": pad, "dilation": dil, "groups": groups, "bias": r.random() < 0.7, "pm": pm})
            c, h, wd = co, ho, wo
            if r.random() < 0.5:
                a = self.act()
                if a["k"] not in ("softmax",):
                    items.append(a)
        if r.random() < 0.4:
            items.append({"k": "flat"})
            items.append({"k": "lin", "i": c * h * wd, "o": r.choice([4, 8, 10]), "bias": True})
        return self.wrap(items), in_shape

    # ------------------------------------------------------------ op makers
    def emit(self, ops, op):
        ops.append(op)
        self.nops += 1
        return op

    def new_dep(self, ops, quantize=True, family=None, force=None):
        from . import archs

        r = self.rng
        a = Abs(self.next_dep)
        self.next_dep += 1
        a.family = family or r.choice(self.sw["family"])
        a.arch, a.in_shape = self.gen_mlp() if a.family == "mlp" else self.gen_cnn()
        a.dtype = r.choice(self.sw["dt"])
        a.wcls = r.choice(WCLS_RARE) if (self.sw["rare_w"] and r.random() < 0.5) else r.choice(WCLS)
        a.init = self.S.sub("init", a.id)
        a.leaves = [(p, s["k"]) for p, s in archs.walk_leaves(a.arch) if s["k"] in ("lin", "conv", "ln")]
        self.deps[a.id] = a
        self.emit(ops, {"op": "build", "dep": a.id, "arch": a.arch, "in_shape": a.in_shape, "dtype": a.dtype, "init": a.init, "wcls": a.wcls})
        if quantize:
            self.quantize(ops, a, force)
        return a

    def quantize(self, ops, a, force=None):
        r = self.rng
        force = force or {}
        a.weights = force.get("weights", r.choice(self.sw["wq"]))
        a.activations = force.get("activations", r.choice(self.sw["aq"]))
        filt = None
        if self.sw["filter"] and r.random() < 0.5 and len(a.leaves) > 1:
            filt = [p for p, _ in a.leaves if r.random() < 0.6] or [a.leaves[0][0]]
        a.qpaths = [p for p, k in a.leaves if (k in ("lin", "conv") or a.activations is not None) and (filt is None or p in filt)]
        a.quantized = True
        self.emit(ops, {"op": "quantize", "dep": a.id, "weights": a.weights, "activations": a.activations, "filter": filt, "optimizer": "explicit" if self.sw["explicit_opt"] and r.random() < 0.5 else "default"})

    def input_desc(self, a, fresh=None):
        r = self.rng
        if fresh is None:
            fresh = not a.inputs or r.random() < 0.5
        if not fresh and a.inputs:
            return copy.deepcopy(r.choice(a.inputs))
        if a.family == "cnn":
            lead = [r.choice([1, 2, 3])]
        else:
            rank = r.choice(self.sw["lead_ranks"])
            lead = [r.choice([1, 2, 3, 4, 17]) if i == 0 else r.choice([1, 2, 3]) for i in range(rank)]
        desc = {"seed": self.S.sub("input", a.id, len(a.inputs), self.nops), "lead": lead, "cls": r.choice(self.sw["icls"]), "mag": r.choice([1.0, 1.0, 0.1, 10.0, 1e-2, 1e2])}
        if self.sw["qinput"] and r.random() < 0.3 and a.activations is not None:
            desc["q"] = r.choice(["qint8", "qfloat8"])
        a.inputs.append(desc)
        if len(a.inputs) > 4:
            a.inputs.pop(0)
        return copy.deepcopy(desc)

    def fault_desc(self, a):
        r = self.rng
        if not self.sw["fault_kinds"] or r.random() >= self.sw["fault_p"]:
            return None
        kind = r.choice(self.sw["fault_kinds"])
        exc = "interrupt" if (self.sw["interrupt"] and r.random() < 0.3) else "fault"
        if kind == "module":
            paths = a.qpaths or [p for p, _ in a.leaves]
            if not paths:
                return None
            phase = r.choice(["pre", "post", "inner", "inner"])
            return {"kind": "module", "path": r.choice(paths), "phase": phase, "n": r.choice([1, 1, 2, 3]) if phase == "inner" else 1, "exc": exc}
        if kind == "aten":
            return {"kind": "aten", "k": logu(r, 1, 300), "exc": exc}
        return {"kind": "line", "k": logu(r, 1, 4096), "exc": exc}

    def forward(self, ops, a, fresh=None, fault=True, inside_block=False):
        r = self.rng
        op = {"op": "forward", "dep": a.id, "input": self.input_desc(a, fresh)}
        g = self.sw["grad"] or r.choice(["no_grad", "enable_grad"])
        if g != "no_grad":
            op["grad"] = g
        if fault:
            fd = self.fault_desc(a)
            if fd:
                op["fault"] = fd
                if inside_block and r.random() < 0.4:
                    op["catch"] = True
        return self.emit(ops, op)

    def calib(self, ops, body_fn, depth, inst=None):
        r = self.rng
        st = self.sw["streamline"]
        op = {
            "op": "calib",
            "momentum": r.choice([0.9, 0.9, 0.5, 0.0, 0.1, 0.99, round(r.random(), 3)]),
            "streamline": r.random() < 0.5 if st is None else st,
            "inst": inst or "fresh",
            "body": [],
        }
        if r.random() < 0.05:
            op["debug"] = True
        self.emit(ops, op)
        body_fn(op["body"], depth + 1)
        return op

    def pick(self, pred=lambda a: True):
        c = [a for a in self.deps.values() if pred(a)]
        return self.rng.choice(c) if c else None


def weighted(rng, table):
    tot = sum(w for _, w in table)
    x = rng.random() * tot
    for k, w in table:
        x -= w
        if x <= 0:
            return k
    return table[-1][0]


# ------------------------------------------------------------------------------------------------
# property profiles


def plan_c13(P: Planner):
    r = P.rng
    ops = []
    n0 = r.randint(1, 2)
    for _ in range(n0):
        a = P.new_dep(ops)
        if r.random() < 0.4:
            P.emit(ops, {"op": "freeze", "dep": a.id})
            a.frozen = True
        if r.random() < 0.7:
            P.forward(ops, a, fresh=True, fault=False)
    allow_reenter = P.cfg.get("reenter", True)

    def body(bops, depth):
        n = r.randint(1, 4)
        for _ in range(n):
            k = weighted(r, [("forward", 6), ("calib", 2 if depth < 3 else 0), ("noext", 1), ("lib", 1), ("newdep", 0.5 if len(P.deps) < 3 else 0), ("freeze", 0.5)])
            a = P.pick(lambda a: a.quantized)
            if k == "forward" and a:
                P.forward(bops, a, inside_block=True)
            elif k == "calib":
                inst = weighted(r, [("fresh", 6), ("reuse", 3 if allow_reenter else 0)])
                P.calib(bops, body, depth, inst=inst)
            elif k == "noext":
                op = P.emit(bops, {"op": "noext", "body": []})
                body(op["body"], depth)
            elif k == "lib":
                lib(bops)
            elif k == "newdep":
                P.new_dep(bops)
            elif k == "freeze" and a:
                P.emit(bops, {"op": "freeze", "dep": a.id})
                a.frozen = True

    def lib(lops):
        fn = r.choice(["quantize_weight", "quantize_activation", "absmax_scale"])
        shape = [r.choice([1, 4, 8, 33]), r.choice([8, 16, 128, 256])]
        op = {"op": "lib", "fn": fn, "shape": shape, "seed": P.S.sub("lib", P.nops), "dtype": r.choice(P.sw["dt"]), "cls": r.choice(ICLS)}
        if fn == "quantize_weight":
            op["qtype"] = r.choice(WQ)
            op["axis"] = r.choice([0, -1])
            if op["qtype"] in ("qint2", "qint4") and r.random() < 0.5:
                op["group_size"] = r.choice([8, 32, 64])
        elif fn == "quantize_activation":
            op["qtype"] = r.choice(AQ)
        else:
            op["qtype"] = r.choice(AQ)
            op["axis"] = r.choice([None, 0, -1])
        P.emit(lops, op)

    n = r.randint(3, 9)
    for _ in range(n):
        k = weighted(r, [("calib", 5), ("forward", 4), ("noext", 1), ("lib", 1), ("newdep", 0.7 if len(P.deps) < 3 else 0), ("freeze", 0.6), ("reuse_calib", 1.5)])
        a = P.pick(lambda a: a.quantized)
        if k == "calib":
            P.calib(ops, body, 0)
        elif k == "reuse_calib":
            P.calib(ops, body, 0, inst="reuse")
        elif k == "forward" and a:
            P.forward(ops, a, fresh=r.random() < 0.3)
        elif k == "noext":
            op = P.emit(ops, {"op": "noext", "body": []})
            body(op["body"], 0)
        elif k == "lib":
            lib(ops)
        elif k == "newdep":
            P.new_dep(ops)
        elif k == "freeze" and a:
            P.emit(ops, {"op": "freeze", "dep": a.id})
            a.frozen = True
    # closing probes outside any context: repeatability
    for a in list(P.deps.values()):
        if a.quantized and a.inputs and r.random() < 0.8:
            P.forward(ops, a, fresh=False, fault=False)
    return ops


PROFILES = {"C13": plan_c13}


def make_plan(prop, seed, cfg):
    P = Planner(prop, seed, cfg)
    ops = PROFILES[cfg.get("profile", prop)](P)
    return {"engine": "L", "prop": prop, "seed": seed, "cfg": cfg, "swarm": P.sw, "ops": ops}


def generate(prop, seed, cfg):
    if cfg.get("mode") == "sweep":
        from . import sweep_l

        yield from sweep_l.generate(prop, seed, cfg)
    else:
        yield make_plan(prop, seed, cfg)


# ------------------------------------------------------------------------------------------------
# argument simplifications for the shrinker


def _walk(ops):
    for op in ops:
        yield op
        if "body" in op:
            yield from _walk(op["body"])


def simplifications(plan):
    """Yield candidate plans with one argument simplified."""
    flat = list(_walk(plan["ops"]))
    for i, op in enumerate(flat):
        cands = []
        if op["op"] == "forward":
            if "fault" in op and op["fault"].get("k", 1) > 1:
                for k2 in (1, op["fault"]["k"] // 2, op["fault"]["k"] - 1):
                    if 1 <= k2 < op["fault"]["k"]:
                        cands.append(("fault.k", k2))
            if op.get("grad"):
                cands.append(("grad", None))
            if op["input"].get("lead") and len(op["input"]["lead"]) > 1:
                cands.append(("input.lead", op["input"]["lead"][:1]))
            if op["input"].get("mag", 1.0) != 1.0:
                cands.append(("input.mag", 1.0))
            if op["input"].get("q"):
                cands.append(("input.q", None))
        elif op["op"] == "build":
            if op["dtype"] != "float32":
                cands.append(("dtype", "float32"))
            if op.get("wcls", "noise") != "noise":
                cands.append(("wcls", "noise"))
        elif op["op"] == "quantize":
            if op.get("weights") not in ("qint8",):
                cands.append(("weights", "qint8"))
            if op.get("activations") not in (None, "qint8"):
                cands.append(("activations", "qint8"))
            if op.get("activations") is not None:
                cands.append(("activations", None))
            if op.get("filter") is not None:
                cands.append(("filter", None))
            if op.get("optimizer") == "explicit":
                cands.append(("optimizer", "default"))
        elif op["op"] == "calib":
            if op.get("momentum") != 0.9:
                cands.append(("momentum", 0.9))
            if op.get("debug"):
                cands.append(("debug", False))
        for key, val in cands:
            new = copy.deepcopy(plan)
            tgt = list(_walk(new["ops"]))[i]
            ks = key.split(".")
            cur = tgt
            for kk in ks[:-1]:
                cur = cur[kk]
            if val is None and ks[-1] in ("grad", "q"):
                cur.pop(ks[-1], None)
            else:
                cur[ks[-1]] = val
            yield new
