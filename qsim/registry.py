"""Which check explores what: engine, level, batches per tier, wall caps, evidence rule."""

ASSUME_COMMON = [
    "torch (2.x CPU kernels, module hooks, mode stacks, autograd) and safetensors behave as documented; they are the trusted base",
    "single caller thread; no CUDA/MPS device in the sandbox (device moves are cpu->cpu)",
    "a clean batch is evidence from a seeded search over histories and fault positions, not a proof",
]

RULE_L = (
    "one evaluation = one simulated run: a seeded plan (swarm-configured architectures, op sequence, nested blocks, faults) "
    "executed against the real quanto code with the property's oracles on after every step. distinct = distinct hash of the "
    "sequence (op kind, abstract world state before, outcome); non-trivial = the run executed at least one step judged by this "
    "property's oracle and, in fault batches, at least one armed fault actually fired."
)

PROPS = {
    "C13": {
        "engine": "L",
        "level": "fault_enumeration",
        "rule": RULE_L + " Sweep batches: one workload per index, one run per enumerated fault position (every aten-level and module-level position of the marked forward, a seeded sample of line-level positions).",
        "assumptions": ASSUME_COMMON + ["faults never land inside Calibration.__enter__/__exit__ themselves; contexts are left in LIFO order"],
        "wall_cap": {"quick": 2400, "thorough": 14400},
        "shrink_budget": 90,
        "batches": {
            "quick": [
                {"name": "nofault", "runs": 250, "cfg": {"faults": False}, "faults": False},
                {"name": "faults", "runs": 900, "cfg": {"faults": True}, "faults": True},
                {"name": "sweep", "runs": 12, "cfg": {"mode": "sweep", "lines": 24, "max_aten": 300}, "faults": True, "chunk": 1, "run_timeout": 900},
            ],
            "thorough": [
                {"name": "nofault", "runs": 6000, "cfg": {"faults": False}, "faults": False},
                {"name": "faults", "runs": 40000, "cfg": {"faults": True}, "faults": True},
                {"name": "sweep", "runs": 400, "cfg": {"mode": "sweep", "lines": 64, "max_aten": 600}, "faults": True, "chunk": 1, "run_timeout": 1800},
            ],
        },
    },
}



def _L(level, quick, thorough, extra_rule="", extra_assume=(), wall=(2400, 14400), shrink=90):
    return {
        "engine": "L",
        "level": level,
        "rule": RULE_L + extra_rule,
        "assumptions": ASSUME_COMMON + list(extra_assume),
        "wall_cap": {"quick": wall[0], "thorough": wall[1]},
        "shrink_budget": shrink,
        "batches": {"quick": quick, "thorough": thorough},
    }


def _two(nq, fq, nt, ft, fault_kinds=None):
    fcfg = {"faults": True}
    if fault_kinds:
        fcfg["fault_kinds"] = fault_kinds
    q = [{"name": "nofault", "runs": nq, "cfg": {"faults": False}, "faults": False}]
    t = [{"name": "nofault", "runs": nt, "cfg": {"faults": False}, "faults": False}]
    if fq:
        q.append({"name": "faults", "runs": fq, "cfg": fcfg, "faults": True})
        t.append({"name": "faults", "runs": ft, "cfg": fcfg, "faults": True})
    return q, t


PROPS["C08"] = _L("exploration", *_two(1600, 1000, 60000, 40000), extra_assume=["float references are evaluated in float64; bounds assume torch CPU kernels accumulate half precision in float32 (measured, see DESIGN 3.4)"])
PROPS["C09"] = _L("exploration", *_two(1600, 1000, 60000, 40000))
PROPS["C10"] = _L("exploration", *_two(1400, 800, 50000, 30000), extra_assume=["a file is durable once the save call returned; torn or corrupted files are out of scope (no checksum in either format)"])
PROPS["C11"] = _L("exploration", *_two(2400, 0, 90000, 0))
PROPS["C12"] = _L("exploration", *_two(1600, 1000, 60000, 40000), extra_assume=["nested calibration contexts are not judged by the EMA law (the property speaks of successive contexts)"])
NOT_APPLICABLE = [
    {"property_id": "C01", "reason": "pure function of (tensor, scale, qtype, axis): no state, schedule, fault or I/O for a simulator to vary; deterministic simulation does not apply (exhaustive value enumeration / SMT would)"},
    {"property_id": "C02", "reason": "pure function of (tensor, bits, axis, group size); no history, fault or interleaving in it"},
    {"property_id": "C03", "reason": "pure functions; the locality clause is a relation between two inputs, not between two histories"},
    {"property_id": "C07", "reason": "kernel-route choice is a pure function of dtypes and sizes; nothing to schedule or fail"},
    {"property_id": "C14", "reason": "accept-or-reject totality over a configuration space: a pure function of its arguments"},
    {"property_id": "C15", "reason": "pure index arithmetic; its only stateful clause (conversion when leaving the GPU) needs a CUDA device the sandbox lacks"},
    {"property_id": "C16", "reason": "finiteness is a pure function of the input's value class; no history or fault dimension"},
]

MANIFEST_CHECKS = {
    "C13": {
        "text": "Seeded search over lifecycle histories with nested/sequential/re-entered Calibration and disable_extensions blocks, exceptions (Exception and KeyboardInterrupt class) injected at module boundaries, at aten calls and at python lines inside forward, plus sweep batches that enumerate every module- and aten-level fault position of a marked forward. Ambient registries/mode stacks compared entry by entry around every block, state digests around every inference and library call, bit-identical re-evaluation. Evidence of absence over the explored histories, not proof.",
        "design_ref": "DESIGN.md section 5 (C13), 3.3 (faults), 3.4 (oracles)",
        "note": "Trusted: torch hook/mode-stack semantics, the harness's own observers (shown transparent by ./selftest transparency). Two different Calibration objects left outer-first, the caller's own global hooks / function mode around blocks and library calls that refuse their arguments are part of the histories. Faults inside __enter__/__exit__ are out of scope.",
        "technique": "deterministic simulation with fault injection: seeded history search + enumerated fault positions, replayable plans",
    },
}

_TECH = "deterministic simulation with fault injection: seeded lifecycle-history search, reference model checked after every step, replayable minimised plans"
MANIFEST_CHECKS.update(
    {
        "C08": {
            "text": "Seeded search over module-tree architectures x lifecycle histories (fresh, calibrating, streamlined, partially frozen, frozen, reloaded, restarted, after weight updates, first forward after a fault-aborted one). Structural diff of the tree once per quantize() (which modules were replaced, parameters bit for bit, hyper-parameters, dtype, device, names, train/eval flags of the modules left alone; trees with tied parameters, shared instances, Sequential slices, mixed modes); at every forward every quantized module's observed output is compared with a float64 twin on the input it actually received, under an analytic per-element bound. Sampling of architectures and histories, not proof.",
            "design_ref": "DESIGN.md section 5 (C08), 3.4 (twin)",
            "note": "Trusted: torch float64 functional ops as reference; quanto's own quantizers for inputs/weights (C01/C02 are not judged here); rounding bound constants documented in DESIGN 3.4.",
            "technique": _TECH,
        },
        "C09": {
            "text": "Seeded search over interleavings of forward / calibrate / freeze / partial freeze / re-freeze / deepcopy / to(cpu) / save / load / weight update, with freeze aborted by injected faults. Output memo compared bit for bit across every output-preserving op; frozen weights compared bit for bit with the dynamic path; idempotence digests; payload geometry, stored tensors detached from the float weight's graph, state_dict byte totals; a deepcopy that raises is a violation.",
            "design_ref": "DESIGN.md section 5 (C09)",
            "note": "Bit equality only. Device moves are cpu->cpu (no accelerator in the sandbox).",
            "technique": _TECH,
        },
        "C10": {
            "text": "Seeded save/load histories through three serializers onto a simulated disk (real files in a scratch directory, in-memory pickles, state_dicts handed over in memory or read once and kept by the caller), with restart (only the file survives), key-order permutation, failed-then-retried writes, repeated cycles, four kinds of load target (default-quantized, same-quantized, requantize(), meta-device skeleton with assign=True) and second loads into an already loaded model; a load must leave other live models and the state_dicts the caller still holds unchanged; state_dict equality, field equality and bit-identical outputs against the pre-save memo.",
            "design_ref": "DESIGN.md section 5 (C10)",
            "note": "Bit equality only. Restart is an in-process rebuild with a different init seed. Torn/corrupted files are out of scope.",
            "technique": _TECH,
        },
        "C11": {
            "text": "Seeded histories of training steps, in-place weight updates, forwards and freezes; gradients reaching each quantized module's input, weight and bias compared with an independently built float64 straight-through graph (per module, on the upstream gradient that actually arrived) under an analytic bound; frozen weights/scales must stay gradient-free; freshness of the dynamic quantized weight after every update, also across a checkpoint loaded back into the live model (Parameter objects kept); requires_grad switched by the caller before or after quantize(); scalar losses and channels-last batches.",
            "design_ref": "DESIGN.md section 5 (C11)",
            "note": "Trusted: torch autograd in float64 as reference. No injected-fault batch (nothing in the property speaks about faults); calls the library refuses (documented ValueErrors caught by the caller) are part of the histories, and training runs in the process' ambient grad mode.",
            "technique": _TECH,
        },
        "C12": {
            "text": "EMA reference model stepped batch by batch through arbitrary calibration histories (several successive contexts, momentum menu, float or quantized module inputs, streamline on/off, batches aborted by injected faults, save/restart/load between contexts, magnitudes that make a scale land exactly on 1); every module's input/output scale checked against the law after every batch, with the old-or-new relaxation after an aborted batch; scales compared across the exit of every block (leaving a block is not a batch); stage-wise calibration with kept outputs; all-zero batches.",
            "design_ref": "DESIGN.md section 5 (C12)",
            "note": "Trusted: float64 twin for the raw output absmax. Nested contexts are not judged.",
            "technique": _TECH,
        },
    }
)

from .registry_k import MANIFEST_CHECKS_K, PROPS_K  # noqa: E402

PROPS.update(PROPS_K)
MANIFEST_CHECKS.update(MANIFEST_CHECKS_K)

from .registry_t import MANIFEST_CHECKS_T, PROPS_T  # noqa: E402

PROPS.update(PROPS_T)
MANIFEST_CHECKS.update(MANIFEST_CHECKS_T)

# C06 also rides on engine L: the invariant is evaluated on every module weight after freeze, deepcopy,
# moves and loads into every kind of target (lifecycle batch, DESIGN section 5 C06)
for _tier, _n in (("quick", 600), ("thorough", 20000)):
    PROPS["C06"]["batches"][_tier] = list(PROPS["C06"]["batches"][_tier]) + [
        {"name": "lifecycle", "engine": "L", "runs": _n, "cfg": {"faults": False, "profile": "C10"}, "faults": False}
    ]
