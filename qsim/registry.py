"""Which check explores what: engine, level, batches per tier, wall caps, evidence rule."""

ASSUME_COMMON = [
    "torch (2.x CPU kernels, module hooks, mode stacks, autograd) and safetensors behave as documented; they are the trusted base",
    "single caller thread; no CUDA/MPS device in the sandbox (device moves are cpu->cpu)",
    "a clean batch is evidence from a seeded search over histories and fault positions, not a proof",
]

RULE_L = (
    "one evaluation = one simulated run: a seeded plan (swarm-configured architectures, op sequence, nested blocks, faults) "
    "executed against the real quanto code with the property's oracles on after every step. distinct = distinct hash of the "
    "sequence (op kind, abstract world state before, outcome); non-trivial = the run executed at least one step judged by this "
    "property's oracle and, in fault batches, at least one armed fault actually fired."
)

PROPS = {
    "C13": {
        "engine": "L",
        "level": "fault_enumeration",
        "rule": RULE_L + " Sweep batches: one workload per index, one run per enumerated fault position (every aten-level and module-level position of the marked forward, a seeded sample of line-level positions).",
        "assumptions": ASSUME_COMMON + ["faults never land inside Calibration.__enter__/__exit__ themselves; contexts are left in LIFO order"],
        "wall_cap": {"quick": 900, "thorough": 7200},
        "shrink_budget": 90,
        "batches": {
            "quick": [
                {"name": "nofault", "runs": 250, "cfg": {"faults": False}, "faults": False},
                {"name": "faults", "runs": 900, "cfg": {"faults": True}, "faults": True},
                {"name": "sweep", "runs": 12, "cfg": {"mode": "sweep", "lines": 24, "max_aten": 300}, "faults": True, "chunk": 1, "run_timeout": 900},
            ],
            "thorough": [
                {"name": "nofault", "runs": 6000, "cfg": {"faults": False}, "faults": False},
                {"name": "faults", "runs": 40000, "cfg": {"faults": True}, "faults": True},
                {"name": "sweep", "runs": 400, "cfg": {"mode": "sweep", "lines": 64, "max_aten": 600}, "faults": True, "chunk": 1, "run_timeout": 1800},
            ],
        },
    },
}

NOT_APPLICABLE = [
    {"property_id": "C01", "reason": "pure function of (tensor, scale, qtype, axis): no state, schedule, fault or I/O for a simulator to vary; deterministic simulation does not apply (exhaustive value enumeration / SMT would)"},
    {"property_id": "C02", "reason": "pure function of (tensor, bits, axis, group size); no history, fault or interleaving in it"},
    {"property_id": "C03", "reason": "pure functions; the locality clause is a relation between two inputs, not between two histories"},
    {"property_id": "C07", "reason": "kernel-route choice is a pure function of dtypes and sizes; nothing to schedule or fail"},
    {"property_id": "C14", "reason": "accept-or-reject totality over a configuration space: a pure function of its arguments"},
    {"property_id": "C15", "reason": "pure index arithmetic; its only stateful clause (conversion when leaving the GPU) needs a CUDA device the sandbox lacks"},
    {"property_id": "C16", "reason": "finiteness is a pure function of the input's value class; no history or fault dimension"},
]

MANIFEST_CHECKS = {
    "C13": {
        "text": "Seeded search over lifecycle histories with nested/sequential/re-entered Calibration and disable_extensions blocks, exceptions (Exception and KeyboardInterrupt class) injected at module boundaries, at aten calls and at python lines inside forward, plus sweep batches that enumerate every module- and aten-level fault position of a marked forward. Ambient registries/mode stacks compared entry by entry around every block, state digests around every inference and library call, bit-identical re-evaluation. Evidence of absence over the explored histories, not proof.",
        "design_ref": "DESIGN.md section 5 (C13), 3.3 (faults), 3.4 (oracles)",
        "note": "Trusted: torch hook/mode-stack semantics, the harness's own observers (shown transparent by ./selftest transparency). Faults inside __enter__/__exit__ and non-LIFO exits are out of scope.",
        "technique": "deterministic simulation with fault injection: seeded history search + enumerated fault positions, replayable plans",
    },
}
