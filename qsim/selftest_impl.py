"""determinism / transparency / sensitivity self-tests (see DESIGN section 7)."""
import concurrent.futures as cf
import json
import os
import subprocess
import sys
import time

from .core import VERIF_DIR, run_seed

PY = "/venv/bin/python"


def _child_digests(argv):
    """child: print {index: [log_digest, behaviour_digest]} for run indices of one batch."""
    prop, batch, lo, hi, repo = argv[0], argv[1], int(argv[2]), int(argv[3]), argv[4]
    sys.path.insert(0, repo)
    import torch

    torch.set_num_threads(1)
    from .registry import PROPS
    from .runner import _get_engine

    spec = PROPS[prop]
    eng = _get_engine(spec["engine"])
    if hasattr(eng, "prepare"):
        eng.prepare(prop, repo)
    cfg = [b for b in spec["batches"]["quick"] if b["name"] == batch][0]["cfg"]
    out = {}
    order = range(lo, hi)
    if os.environ.get("QSIM_REVERSE") == "1":
        order = reversed(list(order))
    for i in order:
        seed = run_seed(0, prop, "quick", batch, i)
        for j, plan in enumerate(eng.generate(prop, seed, cfg)):
            res = eng.execute(plan, prop)
            out[f"{i}.{j}"] = [res["log_digest"], res.get("behaviour_digest", ""), res["harness_error"] is not None]
            if j >= 3:
                break
    print("DIGESTS " + json.dumps(out, sort_keys=True))


def _spawn(prop, batch, lo, hi, repo, env_extra):
    env = dict(os.environ)
    env.update({"OMP_NUM_THREADS": "1", "MKL_NUM_THREADS": "1", "PYTHONDONTWRITEBYTECODE": "1", "TORCH_EXTENSIONS_DIR": os.path.join(VERIF_DIR, ".cache", "torch_ext")})
    env.update(env_extra)
    p = subprocess.run([PY, "-m", "qsim.selftest", "_digests", prop, batch, str(lo), str(hi), repo], cwd=VERIF_DIR, env=env, capture_output=True, text=True, timeout=3600)
    for line in p.stdout.splitlines():
        if line.startswith("DIGESTS "):
            return json.loads(line[8:])
    raise RuntimeError(f"child failed rc={p.returncode}: {p.stderr[-2000:]}")


def _compare(jobs, variants, col, label):
    """jobs: list of (prop, batch, lo, hi); variants: list of env dicts; col: which digest column."""
    t0 = time.time()
    bad = 0
    total = 0
    with cf.ThreadPoolExecutor(max_workers=16) as ex:
        futs = {}
        for job in jobs:
            for vi, env in enumerate(variants):
                futs[ex.submit(_spawn, *job, "/repo", env)] = (job, vi)
        results = {}
        for f in cf.as_completed(futs):
            job, vi = futs[f]
            results.setdefault(job, {})[vi] = f.result()
    for job, byvar in sorted(results.items()):
        ref = byvar[0]
        for vi, got in byvar.items():
            for k in ref:
                total += vi == 0
                if ref[k][2]:
                    print(f"{label}: HARNESS ERROR in {job} run {k}")
                    bad += 1
                if got.get(k, [None, None])[col] != ref[k][col]:
                    bad += 1
                    print(f"{label}: MISMATCH {job} run {k} variant {vi}: {got.get(k)} vs {ref[k]}")
    print(f"{label}: {total} runs x {len(variants)} variants compared in {time.time() - t0:.0f}s, mismatches={bad}")
    return bad


def determinism(args):
    from .registry import PROPS

    n = int(args[0]) if args else 200
    props = args[1].split(",") if len(args) > 1 else sorted(PROPS)
    jobs = []
    for prop in props:
        for b in PROPS[prop]["batches"]["quick"]:
            if b["cfg"].get("mode") == "sweep":
                jobs.append((prop, b["name"], 0, 2))
                continue
            per = max(1, n // 8)
            for lo in range(0, n, per):
                jobs.append((prop, b["name"], lo, min(n, lo + per)))
    variants = [{"PYTHONHASHSEED": "0"}, {"PYTHONHASHSEED": "0"}, {"PYTHONHASHSEED": "12345"}, {"PYTHONHASHSEED": "777", "QSIM_REVERSE": "1"}]
    return 1 if _compare(jobs, variants, 0, "determinism") else 0


def transparency(args):
    from .registry import PROPS

    n = int(args[0]) if args else 120
    props = args[1].split(",") if len(args) > 1 else sorted(p for p in PROPS if PROPS[p]["engine"] == "L")
    jobs = []
    for prop in props:
        per = max(1, n // 4)
        for lo in range(0, n, per):
            jobs.append((prop, "nofault", lo, min(n, lo + per)))
    variants = [{"PYTHONHASHSEED": "0", "QSIM_NO_OBSERVERS": "1"}, {"PYTHONHASHSEED": "0"}, {"PYTHONHASHSEED": "0", "QSIM_ARM_SILENT": "1"}]
    return 1 if _compare(jobs, variants, 1, "transparency") else 0


def main(what, args):
    if what == "_digests":
        _child_digests(args)
        return 0
    if what == "determinism":
        return determinism(args)
    if what == "transparency":
        return transparency(args)
    if what == "sensitivity":
        from . import sensitivity

        return sensitivity.main(args)
    print("unknown selftest", what)
    return 2
