"""Fault injectors. All of them go through seams that already exist (module hooks,
TorchDispatchMode, sys.settrace, attribute shadowing); none needs a hook in /repo.

Every injector is a context manager with `.fired` (bool) and `.points` (number of
fault points it saw, used by sweep mode to enumerate positions)."""
import sys

import torch
from torch.utils._python_dispatch import TorchDispatchMode

from .core import InjectedFault, InjectedInterrupt


def make_exc(kind, where):
    if kind == "interrupt":
        return InjectedInterrupt(f"injected interrupt at {where}")
    return InjectedFault(f"injected fault at {where}")


class NoFault:
    kind = "none"
    fired = False
    points = 0

    def __enter__(self):
        return self

    def __exit__(self, *a):
        return False


class AtenRaise(TorchDispatchMode):
    """Raise at the k-th aten call that reaches the dispatcher below python modes (k>=1).
    k=None: count only."""

    kind = "aten_raise"

    def __init__(self, k=None, exc="fault"):
        super().__init__()
        self.k = k
        self.exc = exc
        self.points = 0
        self.fired = False

    def __torch_dispatch__(self, func, types, args=(), kwargs=None):
        self.points += 1
        if self.k is not None and self.points == self.k and not self.fired:
            self.fired = True
            raise make_exc(self.exc, f"aten#{self.k}:{func}")
        return func(*args, **(kwargs or {}))


class ModuleRaise:
    """Raise from a module-level hook (or a shadowed qforward) of one module."""

    kind = "module_raise"

    def __init__(self, module, phase, n=1, exc="fault"):
        self.module = module
        self.phase = phase
        self.n = n
        self.exc = exc
        self.points = 0
        self.fired = False
        self._h = None

    def _hit(self):
        self.points += 1
        if self.points == self.n and not self.fired:
            self.fired = True
            raise make_exc(self.exc, f"module:{self.phase}#{self.n}")

    def __enter__(self):
        m = self.module
        if self.phase == "pre":
            self._h = m.register_forward_pre_hook(lambda mod, inp: self._hit())
        elif self.phase == "post":
            self._h = m.register_forward_hook(lambda mod, inp, out: self._hit())
        elif self.phase == "inner":
            orig = type(m).qforward

            def shadow(input, _m=m, _orig=orig):
                self._hit()
                return _orig(_m, input)

            m.__dict__["qforward"] = shadow
        else:
            raise ValueError(self.phase)
        self.kind = "module_raise_" + self.phase
        return self

    def __exit__(self, *a):
        if self._h is not None:
            self._h.remove()
        self.module.__dict__.pop("qforward", None)
        return False


_CLEANUP = {}


def cleanup_lines(filename):
    """Lines at which an asynchronous exception makes *any* Python program leak: the header line of a `with`
    statement (Python attributes the block's exit sequence to it, so a trace event there fires between the
    end of the body and the call of `__exit__`) and the bodies of `finally` clauses. No code can defend
    against an exception there (quanto's `with torch._C.DisableTorchFunctionSubclass():` left torch-function
    dispatch disabled for the whole process when one landed on its exit), and DESIGN section 2 keeps faults
    inside enter/exit out of scope; they are not fault points."""
    got = _CLEANUP.get(filename)
    if got is None:
        import ast

        got = set()
        try:
            with open(filename) as f:
                tree = ast.parse(f.read())
            for node in ast.walk(tree):
                if isinstance(node, (ast.With, ast.AsyncWith)):
                    first = node.lineno
                    last = max([first] + [getattr(i.context_expr, "end_lineno", first) for i in node.items])
                    got.update(range(first, last + 1))
                elif isinstance(node, ast.Try):
                    for st in node.finalbody:
                        got.update(range(st.lineno, getattr(st, "end_lineno", st.lineno) + 1))
        except Exception:
            pass
        _CLEANUP[filename] = got
    return got


class LineRaise:
    """Raise at the k-th traced `line` event in a frame whose code lives under optimum/quanto.

    Installed around the call under test only, so it never lands inside a context manager's own
    __enter__/__exit__ of the harness-level `with` (the block was entered before arming)."""

    kind = "line_raise"

    def __init__(self, k=None, exc="fault", root="optimum/quanto", skip_funcs=("__enter__", "__exit__")):
        self.k = k
        self.exc = exc
        self.root = root
        self.points = 0
        self.fired = False
        self.skip = set(skip_funcs)
        self.where = None

    def _local(self, frame, event, arg):
        if event == "line" and not self.fired:
            if frame.f_lineno in cleanup_lines(frame.f_code.co_filename):
                return self._local  # not a fault point: see cleanup_lines
            self.points += 1
            if self.k is not None and self.points == self.k:
                self.fired = True
                self.where = f"{frame.f_code.co_filename.split('optimum/quanto/')[-1]}:{frame.f_lineno}"
                sys.settrace(None)
                raise make_exc(self.exc, f"line#{self.k}:{self.where}")
        return self._local

    def _global(self, frame, event, arg):
        if self.fired:
            return None
        co = frame.f_code
        if self.root in co.co_filename and co.co_name not in self.skip:
            return self._local
        return None

    def __enter__(self):
        self._old = sys.gettrace()
        sys.settrace(self._global)
        return self

    def __exit__(self, *a):
        sys.settrace(self._old)
        return False


def arm(desc, model_lookup):
    """Build an injector from a plan fault descriptor.
    desc: {"kind": "aten"|"module"|"line", "k":..., "exc":..., "path":..., "phase":...}"""
    if not desc:
        return NoFault()
    kind = desc["kind"]
    exc = desc.get("exc", "fault")
    if kind == "aten":
        return AtenRaise(desc.get("k"), exc)
    if kind == "line":
        return LineRaise(desc.get("k"), exc)
    if kind == "module":
        mod = model_lookup(desc["path"])
        if mod is None:
            return NoFault()
        if desc["phase"] == "inner" and not hasattr(type(mod), "qforward"):
            return NoFault()
        return ModuleRaise(mod, desc["phase"], desc.get("n", 1), exc)
    raise ValueError(kind)


class SilentArmed:
    """An aten-level and a line-level injector armed far beyond the end of the call: they intercept
    everything and fire nothing (transparency self-test)."""

    kind = "silent"
    fired = False
    points = 0

    def __init__(self):
        self.a = AtenRaise(10**12)
        self.l = LineRaise(10**12)

    def __enter__(self):
        self.l.__enter__()
        self.a.__enter__()
        return self

    def __exit__(self, *exc):
        self.a.__exit__(*exc)
        self.l.__exit__(*exc)
        self.points = self.a.points + self.l.points
        return False
