"""Architecture grammar: spec (JSON) -> torch module, seeded initialisation, payload generation."""
import math

import torch
import torch.nn as nn

from .core import H

DTYPES = {"float32": torch.float32, "float16": torch.float16, "bfloat16": torch.bfloat16}


class Residual(nn.Module):
    def __init__(self, body):
        super().__init__()
        self.body = body

    def forward(self, x):
        return x + self.body(x)


class Chain(nn.Module):
    """ModuleDict-based container (children registered under names, applied in order)."""

    def __init__(self, mods):
        super().__init__()
        self.blocks = nn.ModuleDict({f"b{i}": m for i, m in enumerate(mods)})

    def forward(self, x):
        for m in self.blocks.values():
            x = m(x)
        return x


class Scale(nn.Module):
    """x * c : a scalar multiplication between modules (keeps quantized tensors quantized)."""

    def __init__(self, c):
        super().__init__()
        self.c = c

    def forward(self, x):
        return x * self.c


class MyLinear(nn.Linear):
    """A user subclass of Linear: quantize() must treat it like Linear."""


def build(spec, dtype):
    k = spec["k"]
    if k == "seq":
        mods = []
        for c in spec["c"]:
            # {"k": "ref", "to": i}: the same module instance as child i (weight tying)
            m = mods[c["to"]] if c["k"] == "ref" else build(c, dtype)
            if c.get("tie_to") is not None:
                # a different module sharing the *Parameter* of child tie_to (tied weights, e.g. embedding and head)
                m.weight = mods[c["tie_to"]].weight
            mods.append(m)
        return nn.Sequential(*mods)
    if k == "seqslice":
        # a slice of a longer Sequential: its children keep the keys "1", "2", ... (keys != positions)
        return nn.Sequential(nn.Identity(), *[build(c, dtype) for c in spec["c"]])[1:]
    if k == "chain":
        return Chain([build(c, dtype) for c in spec["c"]])
    if k == "res":
        return Residual(build(spec["body"], dtype))
    if k == "lin":
        cls = MyLinear if spec.get("sub") else nn.Linear
        return cls(spec["i"], spec["o"], bias=spec.get("bias", True), dtype=dtype)
    if k == "conv":
        pad = spec.get("padding", 0)
        if isinstance(pad, list):
            pad = tuple(pad)
        return nn.Conv2d(
            spec["ci"],
            spec["co"],
            tuple(spec["ks"]),
            stride=tuple(spec.get("stride", (1, 1))),
            padding=pad,
            dilation=tuple(spec.get("dilation", (1, 1))),
            groups=spec.get("groups", 1),
            bias=spec.get("bias", True),
            padding_mode=spec.get("pm", "zeros"),
            dtype=dtype,
        )
    if k == "ln":
        return nn.LayerNorm(tuple(spec["shape"]), eps=spec.get("eps", 1e-5), elementwise_affine=spec.get("affine", True), bias=spec.get("bias", True), dtype=dtype)
    if k == "relu":
        return nn.ReLU()
    if k == "gelu":
        return nn.GELU()
    if k == "silu":
        return nn.SiLU()
    if k == "softmax":
        return nn.Softmax(dim=-1)
    if k == "drop":
        return nn.Dropout(0.5)
    if k == "id":
        return nn.Identity()
    if k == "flat":
        return nn.Flatten(1)
    if k == "scale":
        return Scale(spec["c"])
    raise ValueError(k)


def gen_payload(shape, dtype, seed, cls="noise", mag=1.0):
    """Deterministic payload from a descriptor; never touches the global torch RNG."""
    g = torch.Generator().manual_seed(seed & ((1 << 62) - 1))
    shape = tuple(shape)
    if cls == "noise":
        t = torch.randn(shape, generator=g, dtype=torch.float32)
    elif cls == "uniform":
        t = torch.rand(shape, generator=g, dtype=torch.float32) * 2 - 1
    elif cls == "onesided":
        t = torch.rand(shape, generator=g, dtype=torch.float32) + 0.05
    elif cls == "offset":
        t = 3.0 + 0.1 * torch.randn(shape, generator=g, dtype=torch.float32)
    elif cls == "const":
        t = torch.full(shape, 0.5, dtype=torch.float32)
    elif cls == "zeros":
        t = torch.zeros(shape, dtype=torch.float32)  # a padding-only batch
    elif cls == "zero_rows":
        t = torch.randn(shape, generator=g, dtype=torch.float32)
        if t.ndim >= 1 and t.shape[0] > 1:
            t[0] = 0
    elif cls == "exact":
        # values k/8, |k|<=16 : exactly representable everywhere, products exact
        t = torch.randint(-16, 17, shape, generator=g).to(torch.float32) / 8
    elif cls == "peak":
        # noise in [-1,1] with one element pinned to +1 : absmax is exactly `mag`
        t = torch.rand(shape, generator=g, dtype=torch.float32) * 1.8 - 0.9
        if t.numel():
            t.view(-1)[int(torch.randint(0, t.numel(), (1,), generator=g))] = 1.0
    else:
        raise ValueError(cls)
    return (t * mag).to(dtype)


def init_model(model, seed, wcls="noise"):
    """Seeded initialisation of every parameter (weights ~ class/sqrt(fan_in), biases noise)."""
    with torch.no_grad():
        for i, (name, p) in enumerate(model.named_parameters()):
            s = H(seed, "param", name)
            if p.ndim >= 2:
                fan = max(1, p[0].numel())
                v = gen_payload(p.shape, p.dtype, s, wcls, 1.0 / math.sqrt(fan))
            elif name.endswith("weight"):
                v = (1.0 + 0.2 * gen_payload(p.shape, torch.float32, s, "noise", 1.0)).to(p.dtype)
            else:
                v = gen_payload(p.shape, p.dtype, s, "noise", 0.2)
            p.copy_(v)


def walk_leaves(spec, prefix=""):
    """(module path, leaf spec) in named_modules order for quantizable-kind leaves."""
    k = spec["k"]
    out = []
    if k == "seq":
        for i, c in enumerate(spec["c"]):
            if c["k"] != "ref":
                out += walk_leaves(c, f"{prefix}{i}.")
    elif k == "seqslice":
        for i, c in enumerate(spec["c"]):
            out += walk_leaves(c, f"{prefix}{i + 1}.")
    elif k == "chain":
        for i, c in enumerate(spec["c"]):
            out += walk_leaves(c, f"{prefix}blocks.b{i}.")
    elif k == "res":
        out += walk_leaves(spec["body"], f"{prefix}body.")
    else:
        out.append((prefix[:-1], spec))
    return out
