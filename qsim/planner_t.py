"""Planner of engine T: seed -> plan (swarm configuration, pool construction, op sequence, faults).

The planner keeps an abstract pool - for every slot a zeros tensor of the shape / dtype / strides the
float program would see plus a guess of the quantized class - and dry-runs every candidate step on
those zeros with the executor's own `OPS` table, so that most emitted steps are valid float programs.
The executor stays the authority (invalid steps are skipped). All randomness comes from named
sub-streams of `Streams(seed)`; zeros need no RNG."""
import copy
import math

import torch

from .core import Streams
from .engine_t import DT, OPS, POOL, build_aux

Q8 = ["qint8", "qfloat8_e4m3fn", "qfloat8_e5m2"]
QB = ["qint4", "qint2"]
DTYPES = ["float32", "float16", "bfloat16"]
CLS = ["noise", "noise", "uniform", "onesided", "peak", "exact", "const", "zero_rows"]
MAGS = [1.0, 1.0, 0.1, 10.0, 1e-2, 1e2]
SCALARS = [2.0, 0.5, -1.0, -0.25, 3.0, 1.5, 10.0, 0.1, -2.0]
DIMS = [1, 2, 3, 4, 6, 8, 16]
INTERCEPTED = [k for k, v in OPS.items() if v[3] != "pass"]
PASS = [k for k, v in OPS.items() if v[3] == "pass"]
# what stays quantized (a guess that only biases operand choice)
KEEP_PT = {"view", "unsafe_view", "reshape", "t", "transpose", "permute", "select", "slice", "expand", "unsqueeze", "split", "chunk", "flatten", "clone", "contiguous", "detach", "to_dtype", "to_device", "neg", "relu", "mul", "div", "softmax", "where", "copy_", "state_dict", "deepcopy", "cat", "stack"}
KEEP_AX = {"t", "clone", "contiguous", "detach", "to_dtype", "to_device", "neg", "relu", "mul", "div", "copy_", "state_dict", "deepcopy"}
KEEP_BITS = {"detach", "to_device", "state_dict"}
# ops whose interesting cases need a particular operand mix get more draws
WEIGHT = {"cat": 4, "stack": 4, "copy_": 3, "where": 2, "t": 2, "mul": 2, "div": 2, "linear": 2, "mm": 2, "lt": 2, "split": 2, "to_dtype": 2}


def subset(rng, items, p=0.5, at_least=1):
    s = [x for x in items if rng.random() < p]
    while len(s) < at_least:
        s.append(rng.choice(items))
    return s


def factorizations(n, rng, maxrank=4):
    """A random shape of at most `maxrank` dims whose product is n."""
    dims, rest = [], n
    for _ in range(rng.randint(0, maxrank - 1)):
        divs = [d for d in range(1, rest + 1) if rest % d == 0]
        d = rng.choice(divs)
        dims.append(d)
        rest //= d
    dims.append(rest)
    rng.shuffle(dims)
    return dims


class Abs:
    def __init__(self, z, kind, qtype=None, axis=None, root=None, depth=0):
        self.z, self.kind, self.qtype, self.axis, self.root, self.depth = z, kind, qtype, axis, root, depth

    @property
    def q(self):
        return self.kind != "plain"


class Planner:
    def __init__(self, prop, seed, cfg):
        self.prop, self.seed, self.cfg = prop, seed, cfg
        self.S = Streams(seed)
        self.rng = self.S.rng("plan")
        r = self.S.rng("swarm")
        faults = bool(cfg.get("faults"))
        self.sw = {
            "ops": sorted(subset(r, INTERCEPTED, 0.5, 4) + subset(r, PASS, 0.3, 1)),
            "q8": subset(r, Q8, 0.6),
            "qb": subset(r, QB, 0.6),
            "kinds": subset(r, ["act", "act", "sym", "weight8", "bits", "plain"], 0.55, 2),
            "dt": subset(r, DTYPES, 0.5),
            "cls": subset(r, CLS, 0.4),
            "mags": subset(r, MAGS, 0.4),
            "ranks": subset(r, [1, 2, 2, 3, 4], 0.5),
            "p_sat": r.choice([0.0, 0.3, 0.6]),
            "p_nc": r.choice([0.0, 0.0, 0.3]),
            "p_chain": r.choice([0.3, 0.6, 0.9]),
            "t0_dtype": r.choice([None, None, "float32"]),
            "fault_p": r.choice([0.2, 0.4, 0.7]) if faults else 0.0,
            "fault_kmax": r.choice([4, 12, 40]) if faults else 0,
        }
        for k, v in (cfg.get("force") or {}).items():
            self.sw[k] = v
        self.pool = {}
        self.ops = []
        self.nroot = 0
        self.last = None

    # ------------------------------------------------------------ pool construction
    def shape(self, rank=None):
        r = self.rng
        rank = rank or r.choice(self.sw["ranks"])
        while True:
            s = [r.choice(DIMS) for _ in range(rank)]
            if r.random() < 0.15:
                s[-1] = r.choice([24, 32])
            if rank == 2 and r.random() < 0.1:
                s[0] = r.choice([24, 32])  # torch._int_mm needs more than 16 rows
            if math.prod(s) <= 1536:
                return s

    def free_slot(self):
        free = [s for s in range(POOL) if s not in self.pool]
        if free:
            return free[0]
        return self.rng.choice([s for s in range(POOL) if s != self.last] or [0])

    def make(self, shape=None, kind=None, dtype=None, axis=None, qtype=None):
        """Emit a `make` step; returns the slot."""
        r = self.rng
        kind = kind or r.choice(self.sw["kinds"])
        shape = list(shape) if shape is not None else self.shape()
        dtype = dtype or r.choice(self.sw["dt"])
        n = len(self.ops)
        pl = {"seed": self.S.sub("payload", n), "shape": shape, "dtype": dtype, "cls": r.choice(self.sw["cls"]), "mag": r.choice(self.sw["mags"])}
        if r.random() < self.sw["p_nc"] and len(shape) > 1:
            pl["nc"] = True
        f = r.choice([0.5, 0.25, 0.9]) if r.random() < self.sw["p_sat"] else r.choice([1.0, 1.0, 2.0])
        slot = self.free_slot()
        op = {"op": "make", "dst": slot, "kind": kind, "payload": pl}
        ak = "plain"
        if len(shape) < 2 and kind in ("sym", "weight8"):
            kind = "act"
        if kind == "act":
            op.update(kind="act", qtype=qtype if qtype in Q8 else r.choice(self.sw["q8"]), f=f)
            ak, axis = "pt", None
        elif kind == "sym":
            axis = axis if axis is not None else r.choice([0, -1])
            if shape[axis] == 1:
                axis = None
            op.update(kind="sym", qtype=r.choice(self.sw["q8"]), axis=axis, f=f)
            ak = "ax" if axis is not None else "pt"
        elif kind == "weight8":
            axis = axis if axis is not None else r.choice([0, -1])
            op.update(kind="weight", qtype=r.choice(self.sw["q8"]), axis=axis)
            ak = "ax" if shape[axis] != 1 else "pt"
        elif kind == "bits":
            axis = axis if axis is not None else r.choice([0, -1])
            per = math.prod(shape) // max(shape[axis], 1)
            gs = [g for g in (2, 4, 8, 16, 32) if g <= per and per % g == 0]
            op.update(kind="weight", qtype=r.choice(self.sw["qb"]), axis=axis, group=r.choice(gs) if gs and r.random() < 0.5 else None)
            ak = "bits"
        z = torch.zeros(shape[::-1] if pl.get("nc") else shape, dtype=DT[dtype])
        if pl.get("nc"):
            z = z.permute(*reversed(range(z.dim())))
        self.ops.append(op)
        self.nroot += 1
        self.pool[slot] = Abs(z, ak, op.get("qtype"), axis, self.nroot)
        self.last = slot
        return slot

    # ------------------------------------------------------------ operand choice
    def pick(self, pred=lambda a: True, prefer_q=True):
        r = self.rng
        c = [s for s, a in self.pool.items() if pred(a)]
        if not c:
            return None
        if self.last in c and r.random() < self.sw["p_chain"]:
            return self.last
        cq = [s for s in c if self.pool[s].q]
        if cq and prefer_q and r.random() < 0.85:
            return r.choice(cq)
        return r.choice(c)

    def partner(self, shape, dtype, allow_new=True, kind=None, axis=None, qtype=None):
        """A slot holding a tensor of exactly `shape` (and dtype), or a fresh one."""
        r = self.rng
        c = [s for s, a in self.pool.items() if list(a.z.shape) == list(shape) and a.z.dtype == DT[dtype]]
        if c and (r.random() < 0.7 or not allow_new):
            return r.choice(c)
        if not allow_new or len(self.ops) >= 11:
            return None
        return self.make(shape, kind=kind, dtype=dtype, axis=axis, qtype=qtype)

    # ------------------------------------------------------------ argument generation (one attempt)
    def args(self, fn, a):
        """Returns (src slots, extra args) for op `fn` with primary operand slot `a`, or None."""
        r = self.rng
        z = self.pool[a].z
        sh, nd = list(z.shape), z.dim()
        dname = str(z.dtype).split(".")[-1]
        rd = lambda: r.randrange(-nd, nd) if nd else 0
        seed = self.S.sub("aux", len(self.ops))
        if fn in ("view", "unsafe_view", "reshape"):
            s = factorizations(z.numel(), r)
            if fn != "unsafe_view" and len(s) > 1 and r.random() < 0.3:
                s[r.randrange(len(s))] = -1
            return [a], {"shape": s}
        if fn in ("t", "neg", "relu", "detach", "abs", "exp", "gelu", "silu", "sigmoid", "contiguous", "state_dict", "deepcopy"):
            return [a], {}
        if fn == "transpose":
            return [a], {"d0": rd(), "d1": rd()}
        if fn == "permute":
            p = list(range(nd))
            r.shuffle(p)
            return [a], {"dims": p}
        if fn == "select":
            d = rd()
            return [a], {"dim": d, "i": r.randrange(-sh[d], sh[d])}
        if fn == "slice":
            idx = []
            for d in range(r.randint(1, max(nd, 1))):
                c = r.random()
                if c < 0.6:
                    lo = r.randrange(0, sh[d])
                    idx.append(["s", lo if r.random() < 0.7 else None, r.choice([None, sh[d], r.randint(lo + 1, sh[d]), -1]), r.choice([None, 1, 2])])
                elif c < 0.8:
                    idx.append(["i", r.randrange(-sh[d], sh[d])])
                elif c < 0.9:
                    idx.append(["n"])
                else:
                    idx.append(["e"])
                    break
            return [a], {"idx": idx}
        if fn == "expand":
            if 1 in sh and r.random() < 0.6:
                return [a], {"sizes": [r.choice([2, 3, 4]) if d == 1 else -1 for d in sh]}
            return [a], {"sizes": [r.choice([1, 2, 3])] + [-1] * nd}
        if fn == "unsqueeze":
            return [a], {"dim": r.randrange(-nd - 1, nd + 1)}
        if fn in ("cat", "stack"):
            d = rd() if fn == "cat" else r.randrange(-nd - 1, nd + 1)
            src = [a]
            me = self.pool[a]
            for _ in range(r.choice([1, 1, 1, 2])):
                c = r.random()
                # the same tensor, a pooled one of the same shape (a rescaled copy, say), or a fresh
                # per-tensor one of the same qtype: equal and unequal scales both occur
                like = {"kind": "act", "qtype": me.qtype} if me.kind == "pt" else {}
                b = None
                if c >= 0.5 and len(self.ops) < 11:
                    b = self.make(sh, dtype=dname, **like)
                elif c >= 0.2:
                    b = self.partner(sh, dname, allow_new=False)
                src.append(a if b is None else b)
            return src, {"dim": d}
        if fn == "split":
            d = rd()
            if r.random() < 0.3 and sh[d] >= 2:
                k = r.randint(1, sh[d] - 1)
                return [a], {"size": [k, sh[d] - k], "dim": d}
            return [a], {"size": r.randint(1, max(sh[d], 1)), "dim": d}
        if fn in ("mul", "div"):
            s = {"v": r.choice(SCALARS)}
            if r.random() < 0.2:
                # Python ints and bools are scalars too; zero only as a factor
                s["v"] = r.choice([2, -3, 1, True] + ([0, 0.0] if fn == "mul" else []))
            if r.random() < 0.3:
                s.update({"as": r.choice(["t0", "t0", "t0", "t1", "t11"]), "dtype": self.sw["t0_dtype"]})
            return [a], {"s": s, "form": r.choice(["ts", "ts", "st", "fn"])}
        if fn in ("softmax", "log_softmax"):
            return [a], {"dim": rd()}
        if fn in ("where", "lt", "add", "sub"):
            extra = {"mask": {"seed": seed, "p": r.choice([0.2, 0.5, 0.8])}} if fn == "where" else {}
            if r.random() < (0.7 if fn in ("where",) else 0.4):
                other = r.choice([-1000.0, 1000.0, -1e4, 0.0, 0.5]) if fn == "where" else r.choice([0.0, 0.5, -1.0, 2.0])
                return [a], dict(extra, other=other)
            b = a if r.random() < 0.15 else self.partner(sh, dname)
            return (None if b is None else ([a, b], extra))
        if fn == "clone":
            return [a], ({"mf": "contiguous"} if r.random() < 0.3 else {})
        if fn == "copy_":
            # both directions: the primary is the source half of the time
            if r.random() < 0.06:
                # a source that does not fit: the float copy_ refuses it and leaves the destination alone
                c = [s for s, x in self.pool.items() if s != a and x.z.dtype == z.dtype]
                if c:
                    return [a, r.choice(c)], {"expect_refusal": True}
            b = self.partner(sh, dname, kind=r.choice(["plain", "act", None]))
            if b is None:
                return None
            return ([b, a] if r.random() < 0.5 else [a, b]), {}
        if fn == "to_dtype":
            return [a], {"dtype": r.choice(DTYPES), "copy": r.random() < 0.3}
        if fn == "to_device":
            return [a], {"copy": r.random() < 0.6}
        if fn == "is_same_size":
            b = self.pick(prefer_q=False)
            return [a, b], {}
        if fn in ("mul_tt", "div_tt", "cosine_similarity"):
            b = a if r.random() < 0.15 else self.partner(sh, dname)
            if b is None:
                return None
            return [a, b], ({"dim": rd()} if fn == "cosine_similarity" else {})
        if fn in ("mm", "bmm", "matmul", "linear"):
            want = {"mm": 2, "bmm": 3}.get(fn)
            if (want and nd != want) or nd < 1:
                return None
            k, p = sh[-1], r.choice([1, 2, 4, 8, 8, 16])
            if fn == "linear":
                bshape, ax = [p, k], 0
            else:
                bshape, ax = (sh[:-2] if fn == "bmm" or (fn == "matmul" and nd > 2 and r.random() < 0.5) else []) + [k, p], None
            # existing right operands first (transposed weights, views ...), else a fresh one
            c = [s for s, x in self.pool.items() if list(x.z.shape) == bshape and x.z.dtype == z.dtype]
            if fn == "linear":
                c = [s for s, x in self.pool.items() if x.z.dim() == 2 and x.z.shape[1] == k and x.z.dtype == z.dtype]
            b = r.choice(c) if c and r.random() < 0.6 else self.partner(bshape, dname, kind=r.choice(["weight8", "sym", "act", "bits", "plain"]), axis=ax if r.random() < 0.8 else None)
            if b is None:
                return None
            extra = {}
            if fn == "linear" and r.random() < 0.5:
                extra["bias"] = {"seed": seed, "shape": [self.pool[b].z.shape[0]], "dtype": dname, "cls": "noise", "mag": 1.0}
            return [a, b], extra
        if fn in ("sum", "mean", "amax", "argmax"):
            if r.random() < 0.3 and fn != "amax":
                return [a], {"dim": None}
            return [a], {"dim": rd(), "keepdim": r.random() < 0.3}
        if fn == "pow":
            return [a], {"exponent": r.choice([2.0, 3.0, 0.5, 2])}
        if fn == "layer_norm":
            return [a], {"n": r.randint(1, max(1, min(2, nd)))}
        if fn == "cross_entropy":
            return ([a], {"target": {"seed": seed}}) if nd in (1, 2) else None
        if fn == "topk":
            d = rd()
            return [a], {"k": r.randint(1, max(sh[d], 1)), "dim": d}
        if fn == "flatten":
            s = r.randrange(0, max(nd, 1))
            return [a], {"start": s, "end": r.randrange(s, max(nd, 1))}
        if fn == "squeeze":
            return [a], {"dim": None if r.random() < 0.4 else rd()}
        if fn == "chunk":
            return [a], {"n": r.choice([2, 2, 3, 4]), "dim": rd()}
        if fn == "index_select":
            d = rd()
            return [a], {"dim": d, "index": {"seed": seed, "n": r.randint(1, 4)}}
        if fn == "masked_fill":
            return [a], {"mask": {"seed": seed, "p": r.choice([0.2, 0.5])}, "value": r.choice([0.0, -1000.0, 1.0])}
        raise KeyError(fn)

    # ------------------------------------------------------------ one step
    def predict(self, fn, src):
        """(kind, root) of the result: a guess, used only to bias later choices."""
        a = self.pool[src[0]]
        others = [self.pool[s] for s in src[1:]]
        if fn in ("cat", "stack"):
            same = all(o.kind == "pt" and o.root == a.root for o in others)
            return ("pt", a.root) if a.kind == "pt" and same else ("plain", None)
        if fn == "copy_":
            return a.kind, (others[0].root if others[0].q else a.root)
        keep = {"pt": KEEP_PT, "ax": KEEP_AX, "bits": KEEP_BITS}.get(a.kind, ())
        if fn not in keep or (fn == "where" and others and others[0].q):
            return "plain", None
        if fn in ("mul", "div", "softmax", "to_dtype"):
            self.nroot += 1
            return ("pt" if fn == "softmax" else a.kind), self.nroot
        return a.kind, a.root

    def rollback(self, saved):
        """Forget partners made for a step that is not emitted."""
        n, self.pool, self.nroot, self.last = saved
        del self.ops[n:]

    def step(self):
        r = self.rng
        for _ in range(8):
            fn = r.choices(self.sw["ops"], weights=[WEIGHT.get(o, 1) for o in self.sw["ops"]])[0]
            want = {"t": (1, 2), "mm": (2,), "bmm": (3,), "cross_entropy": (1, 2)}.get(fn)
            pred = (lambda x: x.z.dim() in want) if want and r.random() < 0.9 else (lambda x: True)
            a = self.pick(pred)
            if a is None:
                continue
            saved = (len(self.ops), dict(self.pool), self.nroot, self.last)
            try:
                got = self.args(fn, a)
            except (IndexError, ValueError):  # e.g. a dim of a 0-d tensor
                got = None
            if got is None or any(s is None for s in got[0]):
                self.rollback(saved)
                continue
            src, extra = got
            op = dict({"op": fn, "src": src}, **extra)
            try:
                zs = [self.pool[s].z for s in src]
                zs = [z.clone() if j == 0 and fn == "copy_" else z for j, z in enumerate(zs)]
                out = OPS[fn][1](zs, op, build_aux(op, zs))
            except Exception:
                if r.random() < 0.08 or op.get("expect_refusal"):  # keep a few invalid float programs: the executor must skip them
                    op["dst"] = [self.free_slot()]
                    self.ops.append(op)
                    return True
                self.rollback(saved)
                continue
            outs = list(out) if isinstance(out, (tuple, list)) else [out]
            kind, root = self.predict(fn, src)
            if fn == "copy_":
                op["dst"] = [src[0]]
                self.pool[src[0]] = Abs(self.pool[src[0]].z, kind, self.pool[src[0]].qtype, self.pool[src[0]].axis, root, self.pool[src[0]].depth + 1)
                self.last = src[0]
            else:
                op["dst"] = []
                depth = self.pool[src[0]].depth + 1
                axis = self.pool[src[0]].axis
                if fn == "t" and axis is not None:
                    axis = 0 if axis == -1 else -1
                for j, o in enumerate(outs[:3]):
                    if not isinstance(o, torch.Tensor) or not o.dtype.is_floating_point or o.numel() == 0:
                        continue
                    while len(op["dst"]) < j:
                        op["dst"].append(POOL)  # a result that is not pooled
                    slot = self.free_slot()
                    op["dst"].append(slot)
                    self.pool[slot] = Abs(o, kind, self.pool[src[0]].qtype, axis, root, depth)
                    self.last = slot
            if self.sw["fault_p"] and r.random() < self.sw["fault_p"]:
                k = int(round(math.exp(r.uniform(0, math.log(self.sw["fault_kmax"])))))
                op["fault"] = {"kind": "aten", "k": max(1, k)}
            self.ops.append(op)
            return True
        return False

    def plan(self):
        r = self.rng
        if r.random() < 0.08:
            # operands on the far side of the kernel-selection thresholds (more than 16 tokens in multiples of 8,
            # aligned feature counts): an activation and a weight that a linear / mm can pick up, more than once
            k = r.choice([8, 16, 32])
            dt = "float32" if r.random() < 0.7 else r.choice(self.sw["dt"])
            self.make(r.choice([[24, k], [32, k], [4, 8, k], [2, 16, k], [2, 3, 4, k]]), kind=r.choice(["act", "act", "plain"]), dtype=dt, qtype="qint8" if r.random() < 0.7 else None)
            self.make([r.choice([8, 16]), k], kind=r.choice(["bits", "bits", "weight8"]), dtype=dt, axis=0)
        for _ in range(r.randint(1, 3)):
            self.make()
        if not any(a.q for a in self.pool.values()):
            self.make(kind=r.choice([k for k in self.sw["kinds"] if k != "plain"] or ["act"]))
        depth = r.randint(1, 8)
        n = 0
        while n < depth and len(self.ops) < 12:
            if not self.step():
                break
            n += 1
        return self.ops[:12]


def make_plan(prop, seed, cfg):
    P = Planner(prop, seed, cfg)
    ops = P.plan()
    return {"engine": "T", "prop": prop, "seed": seed, "cfg": cfg, "swarm": P.sw, "ops": ops}


def generate(prop, seed, cfg):
    yield make_plan(prop, seed, cfg)


# ------------------------------------------------------------------------------------------------
# argument simplifications for the shrinker


def simplifications(plan):
    """Yield candidate plans with one argument simplified (accepted only if the class reproduces)."""
    for i, op in enumerate(plan["ops"]):
        cands = []
        if op["op"] == "make":
            pl = op["payload"]
            if pl["dtype"] != "float32":
                cands.append(("payload.dtype", "float32"))
            if pl.get("cls", "noise") != "noise":
                cands.append(("payload.cls", "noise"))
            if pl.get("mag", 1.0) != 1.0:
                cands.append(("payload.mag", 1.0))
            if pl.get("nc"):
                cands.append(("payload.nc", None))
            if op.get("qtype") not in (None, "qint8", "qint4"):
                cands.append(("qtype", "qint8" if op["qtype"].startswith("qfloat") else "qint4"))
            if op.get("f", 1.0) != 1.0:
                cands.append(("f", 1.0))
            if op.get("group") is not None:
                cands.append(("group", None))
            for d, n in enumerate(pl["shape"]):
                if n > 3 or n == 4:
                    cands.append(("payload.shape", pl["shape"][:d] + [2 if n % 2 == 0 else 3] + pl["shape"][d + 1 :]))
        else:
            if "fault" in op:
                cands.append(("fault", None))
                if op["fault"]["k"] > 1:
                    cands.append(("fault.k", op["fault"]["k"] - 1))
            if op.get("bias") is not None:
                cands.append(("bias", None))
            if isinstance(op.get("s"), dict) and op["s"].get("as"):
                cands.append(("s", {"v": op["s"]["v"]}))
            if len(op.get("src", [])) > 2 and op["op"] in ("cat", "stack"):
                cands.append(("src", op["src"][:2]))
        for key, val in cands:
            new = copy.deepcopy(plan)
            cur = new["ops"][i]
            ks = key.split(".")
            for kk in ks[:-1]:
                cur = cur[kk]
            if val is None and ks[-1] in ("fault", "bias", "nc"):
                cur.pop(ks[-1], None)
            else:
                cur[ks[-1]] = val
            yield new
