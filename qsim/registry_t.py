"""Engine T checks (C05, C06): level, batches per tier, wall caps, evidence rule, manifest text.

Merged into the runner's table by adding to registry.py:
    from .registry_t import PROPS_T, MANIFEST_CHECKS_T
    PROPS.update(PROPS_T)
    MANIFEST_CHECKS.update(MANIFEST_CHECKS_T)
"""

ASSUME_T = [
    "torch (2.x CPU kernels, dispatcher, type promotion) behaves as documented and is the trusted base, with two measured exceptions that the engine intercepts at the torch attribute quanto looks up and reports instead of executing: torch._weight_int8pack_mm is memory-unsafe unless K % 16 == 0, torch._int_mm is, with oneDNN enabled, when both operands have a unit stride and one has a leading dimension smaller than its extent (in_features == 1, expanded or re-viewed transposed payloads; core.pin_torch() runs every simulation with oneDNN off, where the kernel is sound) (DESIGN 3.6 seam; engine_t.kernel_guard)",
    "single caller thread; no CUDA/MPS device in the sandbox (device moves are cpu->cpu; AWQ tensors and the CUDA/MPS kernel routes never run)",
    "programs run under torch.no_grad() with library.disable_extensions() held (pure-python unpack kernel; the C++ kernel is C04's)",
    "per-step reading of C05: each result is compared with the same call on the operands dequantized immediately before the step; effects of an in-place op on aliases of its destination are not judged; an in-place op whose destination overlaps itself or partially aliases its source is not a valid float program either and is skipped",
    "a clean batch is evidence from a seeded search over programs, operand states and fault positions, not a proof",
]

RULE_T = (
    "one evaluation = one simulated run: a seeded plan (swarm-configured pool of per-tensor / per-axis 8-bit, packed low-bit and plain tensors, "
    "then a program of 1..8 operations, at most 12 steps, whose results go back into the pool) executed against the real quanto tensor code with "
    "the property's oracle on after every step. distinct = distinct hash of the sequence (op, abstract pool signature before, outcome), where the "
    "pool signature is the multiset of (class, qtype, axis, rank, contiguous?, data shape == shape?, shares storage with another pooled tensor?); "
    "non-trivial = the run executed at least one step judged by this property's oracle and, in fault batches, at least one armed fault actually fired."
)

PROPS_T = {
    "C05": {
        "engine": "T",
        "level": "exploration",
        "rule": RULE_T
        + " C05 judges a step when it has at least one quantized operand and its float shadow is a valid program: exact / 2-ulp / one-output-step / accumulation-bound "
        "comparison chosen from the operation, 'does not raise' except the two documented refusals. A fault-aborted step counts as not executed (fault batch: the steps around it are judged).",
        "assumptions": ASSUME_T,
        "wall_cap": {"quick": 2400, "thorough": 10800},
        "shrink_budget": 20,
        "batches": {
            "quick": [
                {"name": "nofault", "runs": 80000, "cfg": {"faults": False}, "faults": False, "chunk": 100},
                {"name": "faults", "runs": 20000, "cfg": {"faults": True}, "faults": True, "chunk": 100},
            ],
            "thorough": [
                {"name": "nofault", "runs": 1400000, "cfg": {"faults": False}, "faults": False, "chunk": 500},
                {"name": "faults", "runs": 300000, "cfg": {"faults": True}, "faults": True, "chunk": 500},
            ],
        },
    },
    "C06": {
        "engine": "T",
        "level": "exploration",
        "rule": RULE_T
        + " C06 evaluates the invariant I(q) on every quantized tensor of the pool after every step (also after a step aborted by an injected aten-level fault, "
        "whose position k ranges over the inner kernel calls of the quantized op), on every tensor produced by flatten -> strings -> unflatten, and the transition clauses "
        "(codes bit-equal after clone/detach/to(device)/deepcopy/contiguous/state_dict round trip; to(dtype): codes bit-equal and scale == old scale cast). "
        "Engine L adds the lifecycle coverage (module weights after freeze / load / restart / deepcopy / .to) separately.",
        "assumptions": ASSUME_T,
        "wall_cap": {"quick": 2400, "thorough": 10800},
        "shrink_budget": 20,
        "batches": {
            "quick": [
                {"name": "nofault", "runs": 50000, "cfg": {"faults": False}, "faults": False, "chunk": 100},
                {"name": "faults", "runs": 40000, "cfg": {"faults": True}, "faults": True, "chunk": 100},
            ],
            "thorough": [
                {"name": "nofault", "runs": 850000, "cfg": {"faults": False}, "faults": False, "chunk": 500},
                {"name": "faults", "runs": 750000, "cfg": {"faults": True}, "faults": True, "chunk": 500},
            ],
        },
    },
}

MANIFEST_CHECKS_T = {
    "C05": {
        "text": "Seeded search over tensor programs (depth 1..8) on a pool of per-tensor and per-axis QBytesTensors (qint8, both float8 types, saturating scales included), packed QBitsTensors (qint2/qint4, axis 0/-1, grouped or not), plain tensors and scalars, ranks 1-4, three dtypes; results re-enter the pool, so operands are views of views, transposed-then-sliced, re-quantized, rescaled. Every intercepted operation and a fixed list of pass-through functions, state_dict round trips and deepcopy. Per step the result is compared with the same torch call on the operands dequantized immediately before it: value equality for data movement, 2 ulp for rescaling and dtype moves, one output step for re-quantizing ops, an analytic accumulation bound against a float64 reference for contractions; whenever the float call succeeds the quantized one must too, bar the two documented refusals. Evidence of absence over the explored programs, not proof.",
        "design_ref": "DESIGN.md section 4 (Engine T), 5 (C05), 3.4 (shadow), 9 (per-step reading)",
        "note": "Trusted: torch CPU kernels and promotion rules (two unsound private kernels are intercepted and reported, see assumptions). An operation that is not in-place must leave its quantized operands bit-identical, and an in-place call the float program refuses must leave its destination alone. Aliasing across an in-place copy_ is judged against the float program for two cases only: views of the destination must follow it, tensors that are separate in the float program must not change (the operation that made them share memory is named in the violation class).",
        "technique": "deterministic simulation: seeded program search with a float shadow per step, replayable plans, delta-debugged counterexamples",
    },
    "C06": {
        "text": "Same programs as C05; after every step the metadata invariant (reported shape/dtype/device equal those of dequantize(), one code per element, storage dtype of the qtype, scale and zero-point broadcasting along the declared axis, on the tensor's device and of its dtype) is evaluated on every quantized tensor of the pool, and moves/copies/serialization round trips are checked to leave codes bit-identical (dtype moves: scale equal to the old one cast). A fault batch raises an exception at the k-th aten call of a step, including the kernel calls quanto's own dispatch makes (e.g. between rebinding _data and _scale in copy_), and demands the invariant on every pooled tensor afterwards. Engine L checks the same invariant on module weights across the model lifecycle.",
        "design_ref": "DESIGN.md section 4 (Engine T), 5 (C06), 3.3 (aten_raise)",
        "note": "Judged by structural identity and bit equality only. Values left by an interrupted in-place op (new codes, old scale) are not metadata and are not judged.",
        "technique": "deterministic simulation with fault injection: seeded program search + injected exceptions at aten-call granularity, replayable plans",
    },
}
