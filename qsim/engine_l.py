"""Engine L - model lifecycle simulator (C06 partly, C08-C13).

A *plan* is a JSON list of operations (possibly nested in calibration / disable_extensions
blocks) on a small world of deployments, process-global torch/quanto registries, and a
simulated disk. `execute()` interprets a plan against the real quanto code and the
reference models, evaluates the oracles of the property in focus after every step and
returns a RunResult. Replaying a plan never consults a PRNG.
"""
import copy
import gc
import io
import os
import shutil
import sys
import tempfile
import traceback
import warnings

import torch

from . import archs, faults, oracles_l as O, refmodels as R
from .core import EventLog, H, InjectedFault, InjectedInterrupt, RunResult, Violation, bump, hexdigest

F = torch.nn.functional


def components(prop):
    return {
        "real": [
            "optimum.quanto python code from the working tree (quantize, freeze, requantize, Calibration, QModules, QTensors, serialization)",
            "torch module hooks / function-mode stack / autograd",
            "safetensors and torch.save/load on real files in a per-run scratch directory",
            "pure-python unpack kernel (the C++ kernel is exercised by engine K only)",
        ],
        "stub": [
            "restart = in-process rebuild from the architecture spec with a different init seed, loading only the file",
            "devices: cpu only (cpu->cpu moves); no CUDA/MPS kernels",
            "faults are injected exceptions (module hooks, aten dispatch mode, sys.settrace) and failing file objects",
        ],
    }


class Dep:
    """A deployment: a live model plus what the reference knows about it."""

    def __init__(self, did):
        self.id = did
        self.model = None
        self.arch = None
        self.in_shape = None
        self.dtype = "float32"
        self.init = 0
        self.wcls = "noise"
        self.quantized = False
        self.qcfg = None
        self.stamp = 0
        self.memo = {}
        self.oplog = []
        self.origin = "built"
        self.restarts = 0
        self.ema = {}  # module path -> {"in": bool initialised, "out": bool}
        self.calibrated = False
        self.frozen = "no"
        self.obs_handles = []
        self.train_mode = False
        self.obs = []
        self.open = []
        self.broken = False
        self.src_fid = None
        self.src_stamp = None
        self.src_oplog_len = 0
        self.taint = None

    def sig(self):
        q = self.qcfg or {}
        return (
            self.quantized,
            q.get("weights"),
            q.get("activations"),
            self.dtype,
            self.calibrated,
            self.frozen,
            self.origin,
            min(self.restarts, 2),
        )


class WorkloadError(Exception):
    """Wraps an ordinary (non-injected) exception of the workload so that it unwinds blocks."""

    def __init__(self, exc):
        super().__init__(repr(exc)[:200])
        self.exc = exc


class World:
    def __init__(self, plan, prop, keep_log=False):
        self.plan = plan
        self.prop = prop
        self.res = RunResult.new()
        self.log = EventLog(keep=keep_log)
        self.deps = {}
        self.files = {}
        self.depth = 0  # calibration depth
        self.noext_depth = 0
        self.calib_instances = []
        self.scratch = None
        self.trace = []
        self.states = set()
        self.nested_calib = False
        self.reentered = set()
        self.no_observers = os.environ.get("QSIM_NO_OBSERVERS") == "1"
        self.arm_silent = os.environ.get("QSIM_ARM_SILENT") == "1"
        self.cur_calib = None

    # ---------------------------------------------------------------- reporting helpers
    def violate(self, prop, oracle, op, sig, detail, path=None):
        if prop != self.prop:
            return
        if prop == "C11" and oracle == "twin" and ((sig or {}).get("issue") not in ("value", "codes") or "cause" in (sig or {})):
            return  # under C11 the twin only serves the freshness clause: numeric disagreements, no known-defect tags
        v = Violation(property=prop, oracle=oracle, op=op, sig=sig or {}, step=list(path or ()), detail=str(detail)[:1500])
        self.res["violations"].append(v)
        self.log.add("violation", prop, oracle, op, sorted((sig or {}).items()))

    def probe(self, name, n=1):
        bump(self.res["probes"], name, n)

    def judged(self, prop, n=1):
        if prop == self.prop:
            self.res["judged"] += n

    def focus(self, *props):
        return self.prop in props

    def state_sig(self):
        from optimum.quanto.library import ops as qops

        return hexdigest(sorted((d.id, d.sig()) for d in self.deps.values()), self.depth, self.noext_depth, qops._ext_enabled)

    def scratch_dir(self):
        if self.scratch is None:
            base = os.environ.get("VERIF_SCRATCH") or None
            self.scratch = tempfile.mkdtemp(prefix="qsim-", dir=base)
        return self.scratch

    def cleanup(self):
        for d in list(self.deps.values()):
            O.remove_observers(d)
        self.deps.clear()
        self.files.clear()
        if self.scratch is not None:
            shutil.rmtree(self.scratch, ignore_errors=True)
            self.scratch = None
        gc.collect()

    # ---------------------------------------------------------------- execution
    def run(self):
        from .core import pin_torch

        pin_torch()
        cleaned = R.ambient_reset()
        if cleaned:
            self.log.add("pre-run-clean", cleaned)
        try:
            with warnings.catch_warnings(record=True) as wlist:
                warnings.simplefilter("always")
                self.wlist = wlist
                with torch.random.fork_rng(devices=[]):
                    torch.manual_seed(0)
                    self.exec_ops(self.plan["ops"], (), top=True)
        finally:
            try:
                leaked = R.ambient_reset()
                if leaked:
                    self.log.add("post-run-clean", leaked)
            finally:
                self.cleanup()
        res = self.res
        res["log_digest"] = self.log.digest()
        res["behaviour_digest"] = self.log.behaviour_digest()
        res["trace"] = self.trace[:200]
        res["trace_hash"] = hexdigest(self.trace)
        res["states"] = sorted(self.states)
        if self.log.keep:
            res["log_records"] = self.log.records
        return res

    def exec_ops(self, ops, path, top=False):
        for i, op in enumerate(ops):
            p = path + (i,)
            before = self.state_sig()
            outcome = "?"
            try:
                self.res["steps"] += 1
                fn = getattr(self, "op_" + op["op"], None)
                if fn is None:
                    raise RuntimeError(f"unknown op {op['op']}")
                outcome = fn(op, p) or "ok"
            except (InjectedFault, InjectedInterrupt, WorkloadError) as e:
                outcome = "raised:" + type(e).__name__
                self.note(op, before, outcome, p)
                if top or op.get("catch"):
                    if isinstance(e, WorkloadError):
                        self.probe("workload_error_caught")
                    continue
                raise
            except Exception as e:
                # An exception nobody planned for. Raised by the system under test (innermost frame in torch or
                # quanto): an outcome of the operation, recorded and counted. Raised by qsim's own code: a harness
                # bug, which must fail the run (HARNESS-ERROR), never pass silently.
                tb = traceback.extract_tb(e.__traceback__)
                inner = tb[-1].filename if tb else ""
                if os.sep + "qsim" + os.sep in inner:
                    raise
                outcome = "sut-error:" + type(e).__name__
                self.probe("unplanned_sut_error:" + op["op"] + ":" + type(e).__name__)
                self.log.add("sut-error", op["op"], type(e).__name__, str(e)[:120])
            self.note(op, before, outcome, p)

    def note(self, op, before, outcome, p):
        after = self.state_sig()
        self.states.add(after)
        self.trace.append((op["op"], before[:8], outcome))
        self.log.add("step", list(p), op["op"], outcome, after)
        if outcome == "skipped":
            self.res["skipped"] += 1

    def dep(self, op, key="dep"):
        d = self.deps.get(op.get(key))
        if d is None or d.broken or d.model is None:
            return None
        return d

    # ---------------------------------------------------------------- ops: construction
    def op_build(self, op, p):
        if op["dep"] in self.deps:
            return "skipped"
        d = Dep(op["dep"])
        d.arch, d.in_shape, d.dtype, d.init, d.wcls = op["arch"], op["in_shape"], op["dtype"], op["init"], op.get("wcls", "noise")
        d.model = O.build_model(d.arch, d.dtype, d.init, d.wcls)
        self.deps[d.id] = d
        self.log.add("built", d.id, R.state_digest(d.model))
        return "ok"

    def op_drop(self, op, p):
        d = self.deps.pop(op["dep"], None)
        if d is None:
            return "skipped"
        O.remove_observers(d)
        d.model = None
        gc.collect()
        return "ok"

    def op_quantize(self, op, p):
        d = self.dep(op)
        if d is None or d.quantized:
            return "skipped"
        return O.do_quantize(self, d, op, p)

    # ---------------------------------------------------------------- ops: blocks
    def op_calib(self, op, p):
        from optimum.quanto import Calibration

        inst = op.get("inst", "fresh")
        if inst == "fresh" or not self.calib_instances:
            c = Calibration(momentum=op.get("momentum", 0.9), streamline=op.get("streamline", True), debug=op.get("debug", False))
            self.calib_instances.append(c)
            kind = "calib_fresh"
        else:
            c = self.calib_instances[-1]
            active = [id(m) for m in torch.overrides._get_current_function_mode_stack()]
            kind = "calib_reenter" if id(c) in active else "calib_reuse"
            if kind == "calib_reenter":
                self.reentered.add(id(c))
                self.probe("same_instance_reentered")
        O.ensure_sentinel(self)
        before = R.ambient_snapshot()
        exc = None
        if self.depth > 0:
            self.nested_calib = True
            self.probe("nested_calibration")
        entered = False
        exit_failure = None
        depth_before = self.depth
        saved_stdout = sys.stdout
        try:
            sys.stdout = io.StringIO()  # Calibration(debug=True) prints
            with c:
                entered = True
                self.depth += 1
                self.cur_calib = (c.momentum, c.streamline)  # a reused instance keeps its own configuration
                try:
                    self.exec_ops(op.get("body", []), p)
                finally:
                    self.depth -= 1
                    # leaving the block is not a batch: the scales are what the last batch made them
                    at_exit = {i: O.scale_snapshot(x) for i, x in self.deps.items() if x.model is not None and not x.broken and x.quantized} if self.focus("C12") else {}
        except (InjectedFault, InjectedInterrupt, WorkloadError) as e:
            exc = e
        except Exception as e:
            # anything else can only come from the context manager itself (the body's own exceptions are all
            # wrapped): __enter__/__exit__ raised, i.e. the block could not be left properly
            exit_failure = e
            exc = WorkloadError(e)
        finally:
            sys.stdout = saved_stdout
        if entered and self.depth != depth_before:
            self.depth = depth_before
        after = R.ambient_snapshot()
        self.judged("C13")
        if self.focus("C12") and entered:
            for i, snap in (locals().get("at_exit") or {}).items():
                x = self.deps.get(i)
                if x is None or x.model is None:
                    continue
                now = O.scale_snapshot(x)
                moved = sorted(n for n in snap if n in now and not all((a == b) or (a != a and b != b) for a, b in zip(snap[n], now[n])))
                if moved:
                    self.judged("C12")
                    self.violate("C12", "ema", kind, {"cause": "scales_changed_on_exit", "exit": "normal" if exc is None else "exception"}, f"dep {i}: scales of {moved[:3]} changed when the Calibration block was left: {[snap[n] for n in moved[:2]]} -> {[now[n] for n in moved[:2]]}", p)
                    x.broken = True
        if exit_failure is not None:
            self.probe("context_manager_raised")
            self.violate("C13", "exit_raises", kind, {"exc": type(exit_failure).__name__, "at": O.quanto_site(exit_failure)}, f"leaving (or entering) the Calibration block raised {exit_failure!r}", p)
        diff = R.ambient_diff(before, after)
        # the kernel switch is disable_extensions' business (judged at its own outermost exit)
        diff.pop("_ext_enabled", None)
        if kind != "calib_reenter" and id(c) in self.reentered:
            # the body re-entered this very instance: judged (and counted) as its own block kind
            self.reentered.discard(id(c))
            kind = "calib_reentered_outer"
        how = "normal" if exc is None else ("interrupt" if isinstance(exc, InjectedInterrupt) else "exception")
        if exc is not None:
            self.probe("block_left_by_" + how)
            if self.depth > 0:
                self.probe("exit_unwound_nested_contexts")
        if kind not in ("calib_reenter", "calib_reentered_outer"):
            O.sentinel_check(self, kind, how, p)
        if diff:
            self.violate("C13", "restoration", kind, {"tables": ",".join(sorted(diff)), "exit": how}, f"ambient state differs after leaving block: {diff}", p)
            # repaired where restoration is the property in focus, so that later steps are judged on their own; under
            # the other properties the leak stays and its consequences (scales that keep moving, C12) are theirs to see
            if self.focus("C13"):
                self.restore_ambient(before)
            else:
                self.probe("leaked_ambient_state_left_in_place")
        if exc is not None:
            raise exc
        return kind

    def restore_ambient(self, snap):
        import torch.nn.modules.module as M

        for name, entries in snap.items():
            d = getattr(M, name, None)
            if isinstance(entries, list) and d is not None and name.startswith("_global"):
                keep = {k for k, _ in entries}
                for k in list(d.keys()):
                    if k not in keep:
                        del d[k]
        from torch.overrides import _get_current_function_mode_stack, _pop_mode

        while len(_get_current_function_mode_stack()) > len(snap["function_mode_stack"]):
            _pop_mode()
        from optimum.quanto.library import ops as qops

        qops._ext_enabled = snap["_ext_enabled"]

    def op_calib_pair(self, op, p):
        """Two different Calibration objects entered one inside the other and left in the *wrong* order (outer first),
        as happens with hand-managed __enter__/__exit__ or an ExitStack unwound by hand: once both are left the
        registries and the mode stack must be what they were."""
        from optimum.quanto import Calibration

        if self.depth > 0:
            return "skipped"
        O.ensure_sentinel(self)
        a = Calibration(momentum=op.get("m1", 0.9), streamline=op.get("s1", True))
        b = Calibration(momentum=op.get("m2", 0.9), streamline=op.get("s2", True))
        before = R.ambient_snapshot()
        exc = None
        exit_failure = None
        a.__enter__()
        b.__enter__()
        self.depth = 2
        self.nested_calib = True
        self.cur_calib = (b.momentum, b.streamline)
        try:
            try:
                self.exec_ops(op.get("body", []), p)
            except (InjectedFault, InjectedInterrupt, WorkloadError) as e:
                exc = e
            info = (type(exc), exc, exc.__traceback__) if exc is not None else (None, None, None)
            try:
                a.__exit__(*info)  # the outer one first
                b.__exit__(*info)
            except Exception as e:
                exit_failure = e
        finally:
            self.depth = 0
        after = R.ambient_snapshot()
        self.judged("C13")
        self.probe("two_contexts_left_in_the_wrong_order")
        if exit_failure is not None:
            self.violate("C13", "exit_raises", "calib_pair", {"exc": type(exit_failure).__name__, "at": O.quanto_site(exit_failure)}, f"leaving the two Calibration blocks raised {exit_failure!r}", p)
        diff = R.ambient_diff(before, after)
        diff.pop("_ext_enabled", None)
        how = "normal" if exc is None else ("interrupt" if isinstance(exc, InjectedInterrupt) else "exception")
        if diff:
            self.violate("C13", "restoration", "calib_pair", {"tables": ",".join(sorted(diff)), "exit": how}, f"ambient state differs after both blocks were left (outer first): {diff}", p)
            if self.focus("C13"):
                self.restore_ambient(before)
        else:
            O.sentinel_check(self, "calib_pair", how, p)
        if exc is not None:
            raise exc
        return "ok"

    def op_userctx(self, op, p):
        """The caller's own ambient state around a body: global forward (pre-)hooks registered by the user and a
        pass-through TorchFunctionMode of the user's. Blocks inside the body must leave them where they were."""
        import torch.nn.modules.module as M
        from torch.overrides import TorchFunctionMode

        class UserMode(TorchFunctionMode):
            def __torch_function__(self, func, types, args=(), kwargs=None):
                return func(*args, **(kwargs or {}))

        calls = self.__dict__.setdefault("user_hook_calls", [0, 0])

        def user_pre(mod, inp):
            calls[0] += 1

        def user_post(mod, inp, out):
            calls[1] += 1

        handles = []
        for h in op.get("hooks", []):
            handles.append(M.register_module_forward_pre_hook(user_pre) if h == "pre" else M.register_module_forward_hook(user_post))
        mode = UserMode() if op.get("mode") else None
        exc = None
        if mode is not None:
            mode.__enter__()
        before = R.ambient_snapshot()
        try:
            self.exec_ops(op.get("body", []), p)
        except (InjectedFault, InjectedInterrupt, WorkloadError) as e:
            exc = e
        after = R.ambient_snapshot()
        self.judged("C13")
        self.probe("user_ambient_state_around_blocks")
        diff = R.ambient_diff(before, after)
        diff.pop("_ext_enabled", None)
        if diff:
            self.violate("C13", "restoration", "userctx", {"tables": ",".join(sorted(diff))}, f"the caller's own hooks / modes differ after the blocks inside: {diff}", p)
        # tear down whatever is left of the caller's state
        from torch.overrides import _get_current_function_mode_stack, _pop_mode

        if mode is not None:
            st = _get_current_function_mode_stack()
            if st and st[-1] is mode:
                mode.__exit__(None, None, None)
            else:
                while any(m is mode for m in _get_current_function_mode_stack()):
                    _pop_mode()
        for h in handles:
            h.remove()
        if exc is not None:
            raise exc
        return "ok"

    def op_noext(self, op, p):
        from optimum.quanto.library import disable_extensions, ops as qops

        before = R.ambient_snapshot()
        exc = None
        try:
            with disable_extensions():
                self.noext_depth += 1
                try:
                    self.exec_ops(op.get("body", []), p)
                finally:
                    self.noext_depth -= 1
        except (InjectedFault, InjectedInterrupt, WorkloadError) as e:
            exc = e
        after = R.ambient_snapshot()
        self.judged("C13")
        if exc is not None:
            self.probe("noext_left_by_exception")
        if self.noext_depth == 0:
            # the property is silent on what the switch reads between an inner and an outer exit
            diff = R.ambient_diff(before, after)
            if diff:
                self.violate("C13", "restoration", "noext", {"tables": ",".join(sorted(diff))}, f"ambient state differs after disable_extensions: {diff}", p)
                self.restore_ambient(before)
        if exc is not None:
            raise exc
        return "ok"

    # ---------------------------------------------------------------- ops: everything else lives in oracles_l
    def op_forward(self, op, p):
        d = self.dep(op)
        if d is None:
            return "skipped"
        return O.do_forward(self, d, op, p)

    def op_freeze(self, op, p):
        d = self.dep(op)
        if d is None or not d.quantized:
            return "skipped"
        return O.do_freeze(self, d, op, p)

    def op_deepcopy(self, op, p):
        d = self.dep(op)
        if d is None or op["new"] in self.deps:
            return "skipped"
        return O.do_deepcopy(self, d, op, p)

    def op_to(self, op, p):
        d = self.dep(op)
        if d is None:
            return "skipped"
        return O.do_to(self, d, op, p)

    def op_train(self, op, p):
        d = self.dep(op)
        if d is None:
            return "skipped"
        return O.do_train(self, d, op, p)

    def op_wupdate(self, op, p):
        d = self.dep(op)
        if d is None:
            return "skipped"
        return O.do_wupdate(self, d, op, p)

    def op_state_dict(self, op, p):
        d = self.dep(op)
        if d is None:
            return "skipped"
        return O.do_state_dict(self, d, op, p)

    def op_save(self, op, p):
        d = self.dep(op)
        if d is None or op["fid"] in self.files:
            return "skipped"
        return O.do_save(self, d, op, p)

    def op_load(self, op, p):
        if op["fid"] not in self.files or (op.get("into") is None and op["new"] in self.deps):
            return "skipped"
        return O.do_load(self, op, p)

    def op_refill_forward(self, op, p):
        d = self.dep(op)
        if d is None:
            return "skipped"
        return O.do_refill_forward(self, d, op, p)

    def op_bad_call(self, op, p):
        return O.do_bad_call(self, self.dep(op) if op.get("dep") is not None else None, op, p)

    def op_set_mode(self, op, p):
        d = self.dep(op)
        if d is None:
            return "skipped"
        return O.do_set_mode(self, d, op, p)

    def op_set_trainable(self, op, p):
        d = self.dep(op)
        if d is None:
            return "skipped"
        return O.do_set_trainable(self, d, op, p)

    def op_lib(self, op, p):
        return O.do_lib(self, op, p)

    def op_sentinel(self, op, p):
        return O.do_sentinel(self, op, p)


def execute(plan, prop, keep_log=False):
    w = World(plan, prop, keep_log=keep_log)
    return w.run()


def generate(prop, seed, cfg):
    from . import planner_l

    yield from planner_l.generate(prop, seed, cfg)


def simplifications(plan):
    from . import planner_l

    yield from planner_l.simplifications(plan)
