"""Engine K - kernel routes (C04).

World: the route switch `ops._ext_enabled`, the module-level `Extension` object of the C++
unpack kernel (`_lib`, `build_directory`), the `warnings` record, a pool of uint8 tensors and
`PackedTensor`s. A plan is a JSON list of operations (possibly nested in `noext` =
`disable_extensions` blocks); `execute()` interprets it against the real quanto code, compares
every result bit for bit with an independent reference codec and judges the route taken.
Replaying a plan never consults a PRNG. Any sub-list of a plan is a valid plan (ops whose
operands are missing are `skipped`).

Plan ops (every argument explicit; payload descriptor = {gen, shape, cls, view}):
  bytes{id,<payload>}                       a uint8 tensor into the pool (b0 always holds all 256 byte values)
  pack{id,bits,src:<payload>|pool id}       PackedTensor.pack; payload density/bytes, round trip
  unpack{x,bits,via:[py|quanto|ext|method],out?}  the entry points on a byte tensor or on a packed tensor's payload
  aten{x,fn,...} detach{x,out?} to{x,how,out?} flatten{x,mode,prefix,extra,reverse,out?}  on a packed tensor
  noext{body,catch?} raise{exc}             disable_extensions block; injected exception inside it
  arm{state,fail?,exc?} heal                extension state: unbuildable | unbuildable_real | notimpl | flaky -> real
"""
import copy
import hashlib
import os
import shutil
import tempfile
import warnings

import numpy as np
import torch

from .core import VERIF_DIR, EventLog, InjectedFault, InjectedInterrupt, RunResult, Streams, Violation, bump, count_ops, hexdigest

PROP = "C04"
MAX_STEPS = 30
FAULT_STATES = ["unbuildable", "unbuildable_real", "notimpl", "flaky"]
EXCS = {"RuntimeError": RuntimeError, "ValueError": ValueError, "OSError": OSError, "KeyError": KeyError, "MemoryError": MemoryError, "InjectedFault": InjectedFault}
VIEWS = ["contig", "slice", "step", "transpose", "inner", "expand"]
CLS = ["rand", "all256", "zeros", "ff", "ramp", "cover", "low2"]
ATEN = ["add", "eq", "sum", "select", "slice", "reshape", "clone", "to_int32", "cat", "stack", "eq2", "permute", "equal"]
OPKINDS = ["unpack_bytes", "unpack_packed", "pack", "aten", "detach", "to", "flatten", "noext", "mutate", "refill", "meta"]
PREFIXES = ["", "w.", "weight._data.", "m.0.weight._data."]
FALLBACK = "Falling back to default implementation"

# the real C++ kernel, built once (in the parent, before any fork) by prepare()
_REAL = {"prepared": False, "lib": None, "error": None, "dir": None, "base_dir": None, "path": None}


# ------------------------------------------------------------------------------------------------
# the real kernel


def prepare(prop, repo=None):
    """Build/load the C++ unpack kernel of the working tree with quanto's own Extension.lib into
    /verif/.cache/cpp-<sha> (never inside the repo). A failed build is recorded, not raised."""
    import optimum.quanto
    from optimum.quanto.library.ext.cpp import ext

    if _REAL["prepared"]:
        return _REAL
    repo = repo or os.path.dirname(os.path.dirname(os.path.dirname(os.path.abspath(optimum.quanto.__file__))))
    parts = os.environ.get("PATH", "").split(os.pathsep)
    if "/venv/bin" not in parts:
        os.environ["PATH"] = os.pathsep.join(["/venv/bin"] + parts)
    src = os.path.realpath(os.path.join(repo, "optimum", "quanto", "library", "ext", "cpp"))
    h = hashlib.sha256()
    for name in sorted(os.listdir(src)):
        if name.endswith((".cpp", ".h")):
            with open(os.path.join(src, name), "rb") as f:
                h.update(name.encode() + b"\0" + f.read() + b"\0")
    # torch version and source location are part of the key: ninja rebuilds when either changes anyway
    h.update(f"{torch.__version__}|{src}".encode())
    bdir = os.path.join(VERIF_DIR, ".cache", "cpp-" + h.hexdigest()[:16])
    ext._lib, ext.build_directory = None, bdir
    try:
        with warnings.catch_warnings():
            warnings.simplefilter("ignore")
            lib = ext.lib
            probe = lib.unpack(torch.tensor([0xE4], dtype=torch.uint8), 2)
        if probe.dtype != torch.uint8 or probe.numel() != 4:
            raise RuntimeError(f"smoke call of the built kernel returned {probe!r}")
        _REAL["lib"] = lib
    except Exception as e:  # the sandbox could not build it: stated in components/probes, never a violation
        msg = f"{type(e).__name__}: {e}"
        _REAL["error"] = msg if len(msg) <= 700 else msg[:200] + " ... " + msg[-500:]
        ext._lib = None
    _REAL.update(prepared=True, dir=bdir, base_dir=bdir, path=os.environ["PATH"])
    return _REAL


def components(prop):
    real = [
        "optimum.quanto python code from the working tree: pack_weights/PackedTensor, quanto::unpack routing + disable_extensions (library/ops.py), quanto_py::unpack, quanto_ext::unpack registration",
        "torch dispatcher, torch.library, warnings machinery",
        "state unbuildable_real: quanto's Extension.lib + torch.utils.cpp_extension.load really fail (ninja absent from PATH, scratch build directory)",
    ]
    stub = [
        "failing extension states are proxies assigned to ext._lib: `unbuildable` raises RuntimeError('Ninja is required ...') on every call (emulates the sandbox's shipped condition without spawning processes), `notimpl` raises NotImplementedError, `flaky` raises a chosen Exception class on chosen call indices and delegates to the real kernel (or to quanto_py when the kernel could not be built) otherwise",
        "CUDA/MPS kernels are not run (no device); moves are cpu->cpu",
        "injected exceptions inside disable_extensions blocks are raised by a harness op",
    ]
    if not _REAL["prepared"]:
        real.append("C++ unpack kernel: built from the working tree by prepare() (not prepared in this process)")
    elif _REAL["lib"] is not None:
        real.append(f"C++ unpack kernel built from the working tree by quanto's Extension.lib into {_REAL['dir']}, called through a transparent call counter")
    else:
        stub.append(f"C++ unpack kernel NOT AVAILABLE: build/load failed ({_REAL['error']}); state `real` was replaced by `unbuildable`")
    return {"real": real, "stub": stub}


class Proxy:
    """What sits in ext._lib during a run: a call counter around the real kernel, or a failing stand-in."""

    def __init__(self, kind, real, fail=(), exc="RuntimeError"):
        self.kind, self.real, self.fail, self.exc = kind, real, set(fail), exc
        self.calls = self.raised = self.served = 0

    def unpack(self, t, bits):
        i = self.calls
        self.calls += 1
        if self.kind == "notimpl":
            self.raised += 1
            raise NotImplementedError("no kernel for this device (qsim proxy)")
        if self.kind == "unbuildable":
            self.raised += 1
            raise RuntimeError("Ninja is required to load C++ extensions (qsim proxy)")
        if self.kind == "flaky" and i in self.fail:
            self.raised += 1
            raise EXCS.get(self.exc, RuntimeError)(f"transient failure at call {i} (qsim proxy)")
        self.served += 1
        if self.real is not None:
            return self.real.unpack(t, bits)
        return torch.ops.quanto_py.unpack(t, bits)


# ------------------------------------------------------------------------------------------------
# reference bit codec (numpy / python ints; from the docstring of pack_weights)


def ref_unpack(b, bits):
    """field i of every byte (bits [bits*i, bits*(i+1))) -> block i of the result, field 0 first, along dim 0"""
    b = b.astype(np.int64)
    return np.concatenate([(b // (1 << (bits * i))) % (1 << bits) for i in range(8 // bits)], axis=0).astype(np.uint8)


def ref_pack(v, bits):
    """value j of block i goes to bits [bits*i, bits*(i+1)) of row j; ceil(rows*bits/8) rows"""
    rows = v.shape[0]
    R = (rows * bits + 7) // 8
    out = np.zeros((R,) + v.shape[1:], dtype=np.int64)
    for r in range(rows):
        i, j = divmod(r, R)
        out[j] += v[r].astype(np.int64) * (1 << (bits * i))
    return out.astype(np.uint8)


def _np(t):
    return t.detach().contiguous().numpy().copy()


def make_bytes(desc, mask=None):
    """Payload descriptor -> uint8 tensor (own generator; never the global RNG)."""
    shape = [int(s) for s in desc["shape"]]
    view, cls = desc.get("view", "contig"), desc.get("cls", "rand")
    if len(shape) < 2 and view == "transpose":
        view = "step"
    base = list(shape)
    if view == "slice":
        base[0] += 2
    elif view == "step":
        base[0] *= 2
    elif view == "transpose":
        base[0], base[1] = base[1], base[0]
    elif view == "inner":
        base[-1] *= 2
    elif view == "expand":
        base[0] = 1
    n = int(np.prod(base))
    if cls == "all256":
        t = (torch.arange(n, dtype=torch.int64) % 256).to(torch.uint8)
    elif cls == "cover" and mask:  # values whose packing yields the bytes 0,1,2,... (all 256 when large enough)
        R = (base[0] * mask + 7) // 8
        pay = (np.arange(R * int(np.prod(base[1:])), dtype=np.int64) % 256).astype(np.uint8).reshape([R] + base[1:])
        t = torch.from_numpy(ref_unpack(pay, mask)[: base[0]].copy())
    elif cls == "zeros":
        t = torch.zeros(n, dtype=torch.uint8)
    elif cls == "low2":  # values that fit in 2 bits: a buffer the caller may pack as it is
        g = torch.Generator().manual_seed(int(desc["gen"]) % (2**62))
        t = torch.randint(0, 4, (n,), generator=g, dtype=torch.uint8)
    elif cls == "ff":
        t = torch.full((n,), 255, dtype=torch.uint8)
    elif cls == "ramp":
        t = ((torch.arange(n, dtype=torch.int64) * 37 + 11) % 256).to(torch.uint8)
    else:
        g = torch.Generator().manual_seed(int(desc["gen"]) % (2**62))
        t = torch.randint(0, 256, (n,), generator=g, dtype=torch.uint8)
    t = t.reshape(base)
    if mask:
        t &= (1 << mask) - 1
    if view == "slice":
        t = t[1 : 1 + shape[0]]
    elif view == "step":
        t = t[::2]
    elif view == "transpose":
        t = t.transpose(0, 1)
    elif view == "inner":
        t = t[..., ::2]
    elif view == "expand":
        t = t.expand(shape)
    assert list(t.shape) == shape, (desc, t.shape)
    return t


def apply_aten(x, a, other):
    fn = a["fn"]
    if fn == "add":
        return x + a["k"]
    if fn == "eq":
        return x == a["k"]
    if fn == "sum":
        return x.sum() if a.get("dim") is None else x.sum(a["dim"])
    if fn == "select":
        return x[a["i"]] if a["dim"] == 0 else x.select(a["dim"], a["i"])
    if fn == "slice":
        return x[a["a"] : a["a"] + a["n"]] if a["dim"] == 0 else x.narrow(a["dim"], a["a"], a["n"])
    if fn == "reshape":
        return x.reshape(a["shape"])
    if fn == "clone":
        return x.clone()
    if fn == "to_int32":
        return x.to(torch.int32)
    if fn == "cat":
        return torch.cat([x, other] if a.get("first", True) else [other, x], a.get("dim", 0))
    if fn == "stack":
        return torch.stack([x, other] if a.get("first", True) else [other, x], a.get("dim", 0))
    if fn == "eq2":
        return x == other
    if fn == "equal":
        return torch.equal(x, other) if a.get("first", True) else torch.equal(other, x)
    if fn == "permute":
        return x.permute(*a["perm"]).contiguous()
    raise KeyError(fn)


def _call(fn):
    try:
        return fn(), None
    except Exception as e:  # an exception of the code under test (BaseExceptions are harness errors)
        return None, e


class Entry:
    def __init__(self, kind, obj, raw, bits=None, truth=None):
        self.kind, self.obj, self.raw, self.bits, self.truth = kind, obj, raw, bits, truth
        self.all256 = raw.size >= 256 and len(np.unique(raw)) == 256


# ------------------------------------------------------------------------------------------------
# executor


class World:
    def __init__(self, plan, prop, keep_log=False):
        from optimum.quanto.library import ops as qops
        from optimum.quanto.library.ext.cpp import ext
        from optimum.quanto.tensor.qbits.packed import PackedTensor

        self.qops, self.ext, self.PT = qops, ext, PackedTensor
        self.plan, self.prop = plan, prop
        self.res = RunResult.new()
        self.res["probes"]["ext_call_inside_disable_block"] = 0  # must stay 0; reported even when never hit
        self.log = EventLog(keep=keep_log)
        self.pool = {}
        self.depth = 0
        self.murky = False  # an inner block was left while an outer one is open: the switch is not judged there
        self.state, self.proxy, self.fault = None, None, None
        self.last_route = "none"
        self.trace, self.states = [], set()
        self.scratch, self.n_real = None, 0
        self.wlist = []

    # ---------------------------------------------------------------- reporting
    def violate(self, oracle, op, sig, detail, p):
        v = Violation(property=PROP, oracle=oracle, op=op, sig=sig or {}, step=list(p), detail=str(detail)[:1500])
        self.res["violations"].append(v)
        self.log.add("violation", oracle, op, sorted((sig or {}).items()))

    def probe(self, name, n=1):
        bump(self.res["probes"], name, n)

    def sig(self):
        return hexdigest((bool(self.qops._ext_enabled), self.state, self.depth, self.last_route))

    def region(self):
        return "on" if self.depth == 0 else ("murky" if self.murky else "off")

    # ---------------------------------------------------------------- extension states
    def reset_routes(self):
        self.qops._ext_enabled = True
        self.ext._lib = _REAL["lib"]
        self.ext.build_directory = _REAL["base_dir"]
        os.environ["PATH"] = _REAL["path"]

    def set_state(self, kind, op=None, fault=True):
        self.ext.build_directory, os.environ["PATH"] = _REAL["base_dir"], _REAL["path"]
        real = _REAL["lib"]
        if kind == "real" and real is None:
            kind, fault = "unbuildable", True
            self.probe("real_cpp_unavailable")
        if kind == "unbuildable_real":
            if self.scratch is None:
                self.scratch = tempfile.mkdtemp(prefix="qsimk-", dir=os.environ.get("VERIF_SCRATCH") or None)
            self.n_real += 1
            self.ext._lib, self.proxy = None, None
            self.ext.build_directory = os.path.join(self.scratch, f"build{self.n_real}")  # fresh: load() really tries (and fails)
            os.environ["PATH"] = os.path.join(self.scratch, "no-ninja-here")
        else:
            op = op or {}
            self.proxy = Proxy(kind, real, op.get("fail", ()), op.get("exc", "RuntimeError"))
            self.ext._lib = self.proxy
        self.state = kind
        self.fault = None
        if kind != "real" and fault:
            self.fault = {"kind": kind, "fired": False}
            bump(self.res["faults_armed"], kind)

    def fired(self):
        if self.fault is not None and not self.fault["fired"]:
            self.fault["fired"] = True
            bump(self.res["faults_fired"], self.fault["kind"])

    # ---------------------------------------------------------------- run
    def run(self):
        prepare(self.prop)
        self.reset_routes()
        try:
            with warnings.catch_warnings(record=True) as wlist:
                warnings.simplefilter("always")
                self.wlist = wlist
                self.set_state(self.plan.get("init_state", "real"), fault=False)
                self.exec_ops(self.plan["ops"], (), top=True)
        finally:
            self.reset_routes()
            self.pool.clear()
            if self.scratch is not None:
                shutil.rmtree(self.scratch, ignore_errors=True)
        res = self.res
        res["log_digest"] = self.log.digest()
        res["trace"] = self.trace[:60]
        res["trace_hash"] = hexdigest(self.trace)
        res["states"] = sorted(self.states)
        if self.log.keep:
            res["log_records"] = self.log.records
        return res

    def exec_ops(self, ops, path, top=False):
        for i, op in enumerate(ops):
            p = path + (i,)
            before = self.sig()
            self.res["steps"] += 1
            fn = getattr(self, "op_" + op["op"], None)
            if fn is None:
                raise RuntimeError(f"unknown op {op['op']}")
            try:
                outcome = fn(op, p) or "ok"
            except (InjectedFault, InjectedInterrupt) as e:
                self.note(op, before, "raised:" + type(e).__name__, p)
                if top or op.get("catch"):
                    continue
                raise
            if not self.check_held(op, p):
                outcome = "HELD-RESULT-CHANGED"
            self.note(op, before, outcome, p)

    def hold(self, t):
        """Keep a result that was handed to the caller: it is the caller's tensor now and nothing the
        library does later may change it (an unpack at any point of a history returned the right values,
        and they stay right)."""
        held = self.__dict__.setdefault("held", [])
        held.append((t, _np(t).copy()))
        if len(held) > 6:
            held.pop(0)

    def check_held(self, op, p):
        ok = True
        for pid, e in list(self.pool.items()):
            if e.kind == "packed" and not np.array_equal(_np(e.obj._data), e.raw):
                ok = False
                self.res["judged"] += 1
                self.violate("history", op["op"], {"what": "packed_payload_changed"}, f"the payload of packed tensor {pid} changed while {op['op']} ran (it shares memory with something the caller may write to?)", p)
                del self.pool[pid]
        for k, (t, want) in enumerate(self.__dict__.get("held", [])):
            if t is None:
                continue
            if not np.array_equal(_np(t), want):
                ok = False
                self.res["judged"] += 1
                self.violate("history", op["op"], {"what": "earlier_result_changed"}, f"a tensor returned by an earlier unpack changed its values while {op['op']} ran", p)
                self.held[k] = (None, None)
        return ok

    def op_meta(self, op, p):
        """unpack of a payload that lives on the meta device (an empty model being built or moved): there is no
        optimized kernel for it, so the op falls back; only the shape can be judged here - what matters is that
        later calls on real tensors still return the right values."""
        e = self.pool.get(op.get("x"))
        if e is None:
            return "skipped"
        if e.kind == "packed":
            moved, exc = _call(lambda: e.obj.to("meta"))
            if exc is not None:
                return "skipped"
            call = lambda: moved.unpack()
            want = tuple(e.truth.shape)
        else:
            bits = op.get("bits")
            if bits not in (2, 4):
                return "skipped"
            moved, exc = _call(lambda: e.obj.to("meta"))
            if exc is not None:
                return "skipped"
            call = lambda: torch.ops.quanto.unpack(moved, bits)
            want = (e.raw.shape[0] * 8 // bits,) + tuple(e.raw.shape[1:])
        out, exc, route = self.routed(call, op, p)
        if exc is not None:
            return route
        self.probe("unpack_on_meta_device")
        if not isinstance(out, torch.Tensor) or out.device.type != "meta" or tuple(out.shape) != want or out.dtype != torch.uint8:
            self.violate("value", "meta", {"what": "shape_or_device"}, f"unpack of a meta payload returned {getattr(out, 'device', None)} {tuple(getattr(out, 'shape', ()))} {getattr(out, 'dtype', None)}, expected meta {want} uint8", p)
            return "WRONG"
        return route

    def op_refill(self, op, p):
        """The caller overwrites its own uint8 staging buffer in place with a new payload (same shape)."""
        e = self.pool.get(op.get("x"))
        if e is None or e.kind != "bytes":
            return "skipped"
        new = make_bytes({"gen": op.get("gen", 1), "shape": list(e.obj.shape), "cls": op.get("cls", "rand"), "view": "contig"})
        # results the caller is about to overwrite itself are no longer watched
        sp = e.obj.untyped_storage().data_ptr()
        self.held = [(t, wv) if (t is None or t.untyped_storage().data_ptr() != sp) else (None, None) for t, wv in self.__dict__.get("held", [])]
        _, exc = _call(lambda: e.obj.copy_(new))
        if exc is not None:
            return "skipped"
        e.raw = _np(e.obj)
        e.all256 = e.raw.size >= 256 and len(np.unique(e.raw)) == 256
        self.probe("staging_buffer_refilled")
        return "ok"

    def note(self, op, before, outcome, p):
        after = self.sig()
        self.states.add(after)
        k = {"aten": "fn", "arm": "state", "to": "how", "flatten": "mode"}.get(op["op"])
        label = op["op"] + (":" + str(op.get(k)) if k else "")
        self.trace.append((label, before[:8], outcome))
        self.log.add("step", list(p), label, outcome, after)
        if outcome == "skipped":
            self.res["skipped"] += 1

    # ---------------------------------------------------------------- route judgement
    def routed(self, fn, op, p, refusal=None):
        """Run fn (which goes through quanto::unpack one or more times) and judge the route machinery.
        refusal(exc) -> True marks a documented refusal of the operation itself (not judged)."""
        px = self.proxy
        c0, r0, s0 = (px.calls, px.raised, px.served) if px else (0, 0, 0)
        w0 = len(self.wlist)
        region = self.region()
        out, exc = _call(fn)
        calls, raised, served = (px.calls - c0, px.raised - r0, px.served - s0) if px else (0, 0, 0)
        fb = [m for m in (str(w.message) for w in self.wlist[w0:]) if FALLBACK in m]
        if fb:
            route = "fallback-after-NotImplemented" if all("No optimized kernel" in m for m in fb) else "fallback-after-exception"
        elif served and not raised:
            route = "ext"
        else:
            route = "python-direct"
        sig, R, ctx = {"state": self.state}, "quanto::unpack", f" [during {op['op']}, switch region {region}]"
        if region == "off" and (calls or fb):
            self.probe("ext_call_inside_disable_block")
            self.violate("ext_called_when_disabled", R, sig, f"extension consulted {calls}x (fallback warnings {len(fb)}) inside disable_extensions" + ctx, p)
        if exc is not None and refusal is not None and refusal(exc):
            route = "refused"
        elif exc is not None:
            route = "raised"
            failing = region != "off" and (raised or (px is None and self.state != "real"))
            self.violate("fallback_missing" if failing else "raised", R, sig, f"call through quanto::unpack raised {exc!r} (extension raised {raised}x) although quanto_py::unpack is defined" + ctx, p)
        elif raised > len(fb):
            self.violate("fallback_warning_missing", R, sig, f"extension raised {raised}x but {len(fb)} fallback warnings were recorded" + ctx, p)
        if raised or (px is None and fb):
            self.fired()
        if served and px.real is not None:
            self.probe("real_cpp_kernel_used", served)
        if route == "fallback-after-exception":
            self.probe("fallback_after_ext_exception", len(fb))
        elif route == "fallback-after-NotImplemented":
            self.probe("fallback_after_not_implemented", len(fb))
        elif route == "python-direct" and region == "on":
            self.probe("ext_skipped_while_enabled")
        if region == "murky":  # between an inner and the outer exit: whatever the switch reads there is not judged
            self.probe("call_in_unjudged_switch_region")
            if calls or fb:
                self.probe("ext_consulted_inside_outer_block_after_inner_exit")
        if self.state == "flaky" and served and not raised and self.fault and self.fault["fired"]:
            self.probe("ext_used_again_after_transient_failure")
        self.probe("route_" + route)
        self.last_route = route
        self.res["judged"] += 1
        return out, exc, route

    def diff(self, got, ref):
        """None when the returned tensor equals the reference ndarray bit for bit (shape and dtype included), else a description"""
        if isinstance(got, self.PT):
            got = got.unpack()
        if not isinstance(got, torch.Tensor):
            return f"returned {type(got).__name__}"
        want = "torch." + str(ref.dtype)
        if str(got.dtype) != want or tuple(got.shape) != tuple(ref.shape):
            return f"got {got.dtype}{tuple(got.shape)}, expected {want}{tuple(ref.shape)}"
        g = _np(got)
        if not np.array_equal(g, ref):
            bad = np.argwhere(g != ref)
            i = tuple(int(x) for x in bad[0])
            return f"{len(bad)} of {ref.size} elements differ, first at {i}: got {g[i]} expected {ref[i]}"
        return None

    def same(self, got, ref, oracle, opname, sig, what, p):
        d = self.diff(got, ref)
        if d is not None:
            self.violate(oracle, opname, sig, f"{what}: {d}", p)
        return d is None

    def values(self, got, ref, bits, route, what, p):
        """values delivered by an unpack kernel; the class names the kernel that produced them, not the op that consumed them"""
        kernel = "ext" if route == "ext" else "py"
        return self.same(got, ref, "value", "unpack", {"bits": bits, "kernel": kernel}, f"{what} (route {route}, ext state {self.state}, switch region {self.region()})", p)

    def kernel_wrong(self, e, route):
        """is the kernel that served `route` wrong on e's payload by itself? (then unpack is to blame, not the op applied on top)"""
        lib = _REAL["lib"] if route == "ext" else None
        out, exc = _call(lambda: lib.unpack(e.obj._data, e.bits) if lib is not None else torch.ops.quanto_py.unpack(e.obj._data, e.bits))
        return exc is not None or self.diff(out, ref_unpack(e.raw, e.bits)) is not None

    # ---------------------------------------------------------------- ops: blocks and route state
    def op_noext(self, op, p):
        from optimum.quanto.library import disable_extensions

        exc = None
        if self.depth > 0:
            self.probe("nested_disable_block")
        def inside():
            self.depth += 1
            self.murky = False  # entering sets the switch off: defined again
            try:
                self.exec_ops(op.get("body", []), p)
            finally:
                self.depth -= 1

        try:
            if op.get("deco"):
                # the decorator form, on a function that calls itself: one decorated function, entered again while
                # it is still active
                @disable_extensions()
                def rec(k):
                    if k > 0:
                        return rec(k - 1)
                    return inside()

                self.probe("disable_extensions_as_decorator_reentered")
                rec(int(op["deco"]))
            else:
                with disable_extensions():
                    inside()
        except (InjectedFault, InjectedInterrupt) as e:
            exc = e
        how = "normal" if exc is None else "exception"
        if exc is not None:
            self.probe("disable_block_left_by_exception")
        if self.depth == 0:
            self.murky = False
            self.res["judged"] += 1
            if self.qops._ext_enabled is not True:
                self.violate("switch_restored", "noext", {"exit": how}, f"_ext_enabled={self.qops._ext_enabled!r} after the outermost disable_extensions block was left ({how})", p)
                self.qops._ext_enabled = True  # repair so that later steps are judged on their own
        else:
            self.murky = True
        if exc is not None:
            raise exc
        return "left:" + how

    def op_raise(self, op, p):
        if op.get("exc") == "interrupt":
            raise InjectedInterrupt("injected interrupt (engine K)")
        raise InjectedFault("injected fault (engine K)")

    def op_arm(self, op, p):
        if op["state"] not in FAULT_STATES:
            return "skipped"
        self.set_state(op["state"], op)
        return self.state

    def op_heal(self, op, p):
        if self.state == "real":
            return "skipped"
        if self.fault is not None and not self.fault["fired"]:
            self.probe("fault_healed_unfired")
        self.set_state("real", fault=False)
        return self.state

    # ---------------------------------------------------------------- ops: pool
    def op_bytes(self, op, p):
        if op["id"] in self.pool:
            return "skipped"
        t = make_bytes(op)
        e = self.pool[op["id"]] = Entry("bytes", t, _np(t))
        self.probe(f"bytes_rank{t.dim()}" + ("" if t.is_contiguous() else "_strided"))
        self.log.add("bytes", op["id"], hexdigest(e.raw.tobytes(), e.raw.shape), list(t.stride()))
        return "ok"

    def op_unpack(self, op, p):
        e = self.pool.get(op["x"])
        if e is None:
            return "skipped"
        data, bits = (e.obj._data, e.bits) if e.kind == "packed" else (e.obj, op.get("bits"))
        if bits not in (2, 4):
            return "skipped"
        ref = ref_unpack(e.raw, bits)
        outs, last, ok_all = [], None, True
        for via in op.get("via", ["py", "quanto", "ext"]):
            route = None
            if via == "quanto":
                out, exc, route = self.routed(lambda: torch.ops.quanto.unpack(data, bits), op, p)
            elif via == "method":
                if e.kind != "packed":
                    continue
                out, exc, route = self.routed(lambda: e.obj.unpack(), op, p)
            elif via in ("py", "ext"):
                px = self.proxy
                r0, s0 = (px.raised, px.served) if px else (0, 0)
                out, exc = _call(lambda: getattr(torch.ops, "quanto_" + via).unpack(data, bits))
                self.res["judged"] += 1
                if via == "ext":
                    if (px and px.raised > r0) or (px is None and exc is not None):
                        self.fired()
                    if px and px.served > s0 and px.real is not None:
                        self.probe("real_cpp_kernel_used")
                    if self.region() != "on":
                        self.probe("direct_ext_call_inside_disable_block")
                expected_raise = via == "ext" and (self.state != "real" and (px is None or px.raised > r0))
                if exc is not None and not expected_raise:
                    self.violate("entry_raised", "unpack", {"via": via, "state": self.state}, f"quanto_{via}::unpack(bits={bits}) raised {exc!r} on a uint8 tensor of shape {tuple(data.shape)}", p)
            else:
                continue
            if exc is not None:
                outs.append(f"{via}=raised")
                continue
            want = ref[: e.truth.shape[0]] if via == "method" else ref
            ok = self.values(out, want, bits, route or ("ext" if via == "ext" else "python-direct"), f"unpack via {via} of {op['x']} {tuple(data.shape)}", p)
            ok_all = ok_all and ok
            if ok and e.kind == "packed" and via == "method" and not np.array_equal(want, e.truth):
                raise AssertionError("reference codec inconsistent with itself")
            outs.append(f"{via}={route or 'ok'}" if ok else f"{via}=WRONG")
            last = out if ok else last
        if e.all256 and ok_all and outs:
            self.probe(f"all_256_bytes_checked_b{bits}")
            self.probe("all_256_bytes_checked")
        if last is not None:
            self.hold(last)
            self.log.add("unpacked", op["x"], bits, hexdigest(_np(last).tobytes()))
            if op.get("out") and op["out"] not in self.pool:
                self.pool[op["out"]] = Entry("bytes", last, _np(last))
        return ",".join(outs) or "skipped"

    def op_big_unpack(self, op, p):
        """A payload large enough for a kernel to split the work, unpacked with several intra-op threads through
        every entry point (the rest of a run uses small payloads and one thread). Nothing is kept in the pool."""
        bits = op.get("bits")
        if bits not in (2, 4):
            return "skipped"
        rows, cols = int(op["rows"]), int(op["cols"])
        raw = np.random.RandomState(int(op["gen"]) % (1 << 32)).randint(0, 256, size=(rows, cols)).astype(np.uint8)
        data = torch.from_numpy(raw.copy())
        ref = ref_unpack(raw, bits)
        outs = []
        prev = torch.get_num_threads()
        torch.set_num_threads(int(op.get("threads", 2)))
        try:
            for via in op.get("via", ["py", "quanto", "ext"]):
                if via == "quanto":
                    out, exc, route = self.routed(lambda: torch.ops.quanto.unpack(data, bits), op, p)
                else:
                    px = self.proxy
                    r0 = px.raised if px else 0
                    out, exc = _call(lambda: getattr(torch.ops, "quanto_" + via).unpack(data, bits))
                    route = "ext" if via == "ext" else "python-direct"
                    self.res["judged"] += 1
                    expected_raise = via == "ext" and (self.state != "real" and (px is None or px.raised > r0))
                    if via == "ext" and ((px and px.raised > r0) or (px is None and exc is not None)):
                        self.fired()
                    if exc is not None and not expected_raise:
                        self.violate("entry_raised", "unpack", {"via": via, "state": self.state}, f"quanto_{via}::unpack(bits={bits}) raised {exc!r} on a uint8 tensor of shape {tuple(data.shape)}", p)
                if exc is not None:
                    outs.append(f"{via}=raised")
                    continue
                ok = self.values(out, ref, bits, route, f"unpack via {via} of a {rows}x{cols} payload with {op.get('threads', 2)} threads", p)
                outs.append(f"{via}={route}" if ok else f"{via}=WRONG")
                if ok and route == "ext":
                    self.probe("large_payload_through_real_kernel_multithreaded")
        finally:
            torch.set_num_threads(prev)
        if not np.array_equal(data.numpy(), raw):
            self.violate("history", "unpack", {"issue": "input_modified"}, "unpack modified its (large) input", p)
        self.probe("large_payload_multithreaded")
        self.log.add("big_unpacked", rows, cols, bits, outs)
        return ",".join(outs) or "skipped"

    def op_twin(self, op, p):
        """A second packed tensor made from the values of an existing one: packed again as they are, packed with the
        other bit width (when the values fit), or with one all-zero row appended (same number of payload rows when
        the row count is not a multiple of 8/bits). Material for operations that take two packed tensors."""
        e = self.packed({"x": op.get("of")})
        if e is None or op["id"] in self.pool:
            return "skipped"
        how, bits = op.get("how", "same"), e.bits
        v = e.truth
        if how == "bits":
            bits = 6 - e.bits
            if int(v.max(initial=0)) >= (1 << bits):
                return "skipped"
        elif how == "zero_row":
            v = np.concatenate([v, np.zeros((1,) + v.shape[1:], dtype=v.dtype)], axis=0)
        t = torch.from_numpy(v.copy())
        P, exc = _call(lambda: self.PT.pack(t, bits))
        if exc is not None or not isinstance(P, self.PT):
            return "skipped"
        self.pool[op["id"]] = Entry("packed", P, _np(P._data), bits, v.copy())
        self.probe("packed_twin:" + how)
        return "ok"

    def op_pack(self, op, p):
        bits, src = op.get("bits"), op["src"]
        if op["id"] in self.pool or bits not in (2, 4):
            return "skipped"
        if isinstance(src, str):
            e = self.pool.get(src)
            if e is None or e.kind != "bytes" or e.obj.dim() == 0 or int(e.raw.max(initial=0)) >= (1 << bits):
                return "skipped"
            t = e.obj
        else:
            t = make_bytes(src, mask=bits)
        truth = _np(t)
        rows, per = t.shape[0], 8 // bits
        sig = {"bits": bits, "residue": rows % per}
        P, exc = _call(lambda: self.PT.pack(t, bits))
        self.res["judged"] += 1
        self.probe(f"residue_b{bits}_r{rows % per}")
        self.probe(f"pack_rank{t.dim()}" + ("" if t.is_contiguous() else "_strided"))
        if exc is not None:
            self.violate("raised", "pack", sig, f"pack raised {exc!r} for shape {tuple(t.shape)}", p)
            return "raised"
        if not isinstance(P, self.PT) or P.bits != bits or tuple(P.shape) != tuple(t.shape) or P.dtype != torch.uint8:
            self.violate("packed_meta", "pack", sig, f"pack returned {type(P).__name__} bits={getattr(P, 'bits', None)} shape={tuple(P.shape)} for input {tuple(t.shape)}", p)
            return "bad"
        want_rows = (rows * bits + 7) // 8
        ok = True
        if tuple(P._data.shape) != (want_rows,) + tuple(t.shape[1:]) or P._data.dtype != torch.uint8:
            self.violate("payload_shape", "pack", sig, f"payload {P._data.dtype}{tuple(P._data.shape)} for input {tuple(t.shape)}; expected {(want_rows,) + tuple(t.shape[1:])}", p)
            ok = False
        else:
            ok = self.same(P._data, ref_pack(truth, bits), "payload_bytes", "pack", sig, f"payload for input {tuple(t.shape)}", p)
        back, exc, route = self.routed(lambda: P.unpack(), op, p)
        if exc is None and ok:  # a correct payload that comes back wrong is the unpack kernel's doing
            ok = self.values(back, truth, bits, route, f"unpack(pack(t)) for shape {tuple(t.shape)}", p)
        elif exc is None:
            self.same(back, truth, "roundtrip", "pack", sig, f"unpack(pack(t)) for shape {tuple(t.shape)} (route {route})", p)
        if not np.array_equal(_np(t), truth):
            self.probe("pack_modified_its_input")
        if not ok or exc is not None:
            return "bad"  # quarantined: not pooled
        e = self.pool[op["id"]] = Entry("packed", P, _np(P._data), bits, truth)
        self.log.add("packed", op["id"], bits, hexdigest(e.raw.tobytes(), e.raw.shape), list(P.stride()))
        return "ok"

    def packed(self, op, key="x"):
        e = self.pool.get(op.get(key))
        return e if e is not None and e.kind == "packed" else None

    def op_aten(self, op, p):
        e = self.packed(op)
        if e is None or op.get("fn") not in ATEN:
            return "skipped"
        other_p = other_t = None
        if op["fn"] in ("cat", "stack", "eq2", "equal"):
            o = self.pool.get(op.get("other")) if op.get("other") else e
            if o is None:
                return "skipped"
            other_p = o.obj
            other_t = torch.from_numpy(o.truth.copy()) if o.kind == "packed" else o.obj
        truth = torch.from_numpy(e.truth.copy())
        exp, xexc = _call(lambda: apply_aten(truth, op, other_t))
        if xexc is not None:
            return "skipped"  # the arguments do not fit this tensor (shrunk plan)
        # PackedTensor refuses dtype moves explicitly ("uint8 only"): a documented refusal, tolerated and counted
        refusal = (lambda x: isinstance(x, ValueError) and "uint8 only" in str(x)) if op["fn"] == "to_int32" else None
        got, exc, route = self.routed(lambda: apply_aten(e.obj, op, other_p), op, p, refusal)
        sig = {"fn": op["fn"]}
        if exc is not None:
            if route == "refused":
                self.probe("to_int32_refused_as_documented")
            return route
        what = f"{op['fn']}(P) vs {op['fn']}(values) for P of shape {tuple(e.truth.shape)} bits {e.bits}"
        if op["fn"] == "equal":
            # a Python bool: two packed tensors are equal exactly when their values are (whatever their bits,
            # their padding rows or the unused positions of their last payload rows hold)
            self.res["judged"] += 1
            self.probe("equal_of_two_packed_tensors")
            if bool(got) != bool(exp):
                o = self.pool.get(op.get("other")) if op.get("other") else e
                self.violate("op_on_unpacked", "aten", sig, f"torch.equal on packed tensors of shapes {tuple(e.truth.shape)} (bits {e.bits}) and {tuple(o.truth.shape) if o.kind == 'packed' else tuple(o.obj.shape)} (bits {o.bits}) returned {got}, on their values {exp} (route {route})", p)
                return "WRONG"
            self.log.add("aten", "equal", bool(exp))
            return route
        if self.diff(got, _np(exp)) is not None and self.kernel_wrong(e, route):
            ok = self.values(got, _np(exp), e.bits, route, what, p)
        else:
            ok = self.same(got, _np(exp), "op_on_unpacked", "aten", sig, what + f" (route {route})", p)
        self.log.add("aten", op["fn"], hexdigest(_np(exp).tobytes(), tuple(exp.shape)))
        return route if ok else "WRONG"

    def op_mutate(self, op, p):
        """The caller obtains values of a packed tensor (unpack(), or a reshaping/slicing op on it), overwrites
        *that result* in place, and unpacks again: what the packed tensor denotes must not have moved
        (an unpack at any point of a history returns the original tensor)."""
        e = self.packed(op)
        if e is None:
            return "skipped"
        how = op.get("how", "unpack")
        get = {
            "unpack": lambda: e.obj.unpack(),
            "reshape": lambda: e.obj.reshape(-1),
            "select": lambda: e.obj.select(0, 0),
            "slice": lambda: e.obj[: max(1, e.obj.shape[0] // 2)],
        }.get(how)
        if get is None:
            return "skipped"
        got, exc, route = self.routed(get, op, p)
        if exc is not None:
            return route
        _, exc2 = _call(lambda: got.add_(op.get("k", 1)) if op.get("mut", "add_") == "add_" else got.zero_())
        if exc2 is not None:
            return "skipped"
        self.res["judged"] += 1
        if not np.array_equal(_np(e.obj._data), e.raw):
            self.violate("preserved", "mutate", {"what": "payload_bytes", "how": how}, f"overwriting the result of {how} changed the packed payload", p)
            return "bad"
        back, exc, route2 = self.routed(lambda: e.obj.unpack(), op, p)
        if exc is not None:
            return route2
        ok = self.same(back, e.truth, "history", "mutate", {"how": how}, f"unpack() after the result of an earlier {how} was overwritten in place (route {route2})", p)
        self.probe("unpacked_result_overwritten_in_place")
        return route2 if ok else "WRONG"

    def derived(self, op, p, e, Q, what):
        """Q was obtained from the packed tensor e.obj by detach / to / flatten->unflatten: must be the same packed tensor."""
        self.res["judged"] += 1
        P = e.obj
        if not isinstance(Q, self.PT):
            self.violate("preserved", op["op"], {"what": "type"}, f"{what} returned {type(Q).__name__}", p)
            return "bad"
        bad = [
            name
            for name, a, b in (
                ("bits", Q.bits, P.bits),
                ("size", tuple(Q.size()), tuple(P.size())),
                ("stride", tuple(Q.stride()), tuple(P.stride())),
                ("payload_shape", tuple(Q._data.shape), tuple(P._data.shape)),
                ("payload_dtype", Q._data.dtype, torch.uint8),
            )
            if a != b
        ]
        if not bad and not np.array_equal(_np(Q._data), e.raw):
            bad.append("payload_bytes")
        for name in bad:
            self.violate("preserved", op["op"], {"what": name}, f"{what} changed {name}: bits {Q.bits}/{P.bits} size {tuple(Q.size())}/{tuple(P.size())} stride {tuple(Q.stride())}/{tuple(P.stride())}", p)
        if bad:
            return "bad"
        back, exc, route = self.routed(lambda: Q.unpack(), op, p)
        if exc is not None or not self.values(back, e.truth, e.bits, route, f"values after {what} (payload bytes unchanged)", p):
            return "bad"
        if op.get("out") and op["out"] not in self.pool:
            self.pool[op["out"]] = Entry("packed", Q, _np(Q._data), e.bits, e.truth)
        return "ok" if Q is not P else "same-object"

    def op_detach(self, op, p):
        e = self.packed(op)
        if e is None:
            return "skipped"
        Q, exc = _call(lambda: e.obj.detach())
        if exc is not None:
            self.violate("raised", "detach", {}, f"detach raised {exc!r}", p)
            return "raised"
        return self.derived(op, p, e, Q, "detach")

    def op_to(self, op, p):
        e = self.packed(op)
        P = e.obj if e else None
        fns = {
            "cpu": lambda: P.to("cpu"),
            "cpu_copy": lambda: P.to("cpu", copy=True),
            "cpu_method": lambda: P.cpu(),
            "uint8": lambda: P.to(torch.uint8),
            "device_dtype_copy": lambda: P.to(device="cpu", dtype=torch.uint8, copy=True),
            "device_obj": lambda: P.to(torch.device("cpu"), non_blocking=True),
        }
        if e is None or op.get("how") not in fns:
            return "skipped"
        Q, exc = _call(fns[op["how"]])
        if exc is not None:
            self.violate("raised", "to", {"how": op["how"]}, f"to({op['how']}) raised {exc!r}", p)
            return "raised"
        return self.derived(op, p, e, Q, "to:" + op["how"])

    def op_flatten(self, op, p):
        e = self.packed(op)
        if e is None:
            return "skipped"
        P, mode = e.obj, op.get("mode", "unflatten")

        def roundtrip():
            names, meta = P.__tensor_flatten__()
            leaves = {n: getattr(P, n).clone() for n in names}  # what a serializer hands back: new leaves, plain strings
            if any(not isinstance(v, str) for v in meta.values()):
                self.probe("flatten_meta_not_strings")
            meta = {str(k): str(v) for k, v in meta.items()}
            if mode == "unflatten":
                return self.PT.__tensor_unflatten__(leaves, meta, None, None)
            prefix = op.get("prefix", "w.")
            sd = {prefix + n: v for n, v in leaves.items()}
            sd.update({prefix + k: v for k, v in meta.items()})
            if op.get("extra") and prefix:
                sd = dict({"other.weight": torch.zeros(2), "other._data": torch.ones(1, dtype=torch.uint8)}, **sd, zz="7")
            if op.get("reverse"):
                sd = dict(reversed(list(sd.items())))
            Q = self.PT.load_from_state_dict(sd, prefix)
            if any(k.startswith(prefix) for k in sd) if prefix else sd:
                self.probe("load_from_state_dict_left_keys")
            return Q

        Q, exc = _call(roundtrip)
        if exc is not None:
            self.violate("raised", "flatten", {"mode": mode}, f"flatten/{mode} (prefix {op.get('prefix')!r}) raised {exc!r}", p)
            return "raised"
        return self.derived(op, p, e, Q, "flatten:" + mode)


def execute(plan, prop, keep_log=False):
    return World(plan, prop, keep_log=keep_log).run()


# ------------------------------------------------------------------------------------------------
# planner


def subset(rng, items, p=0.5, at_least=1):
    s = [x for x in items if rng.random() < p]
    while len(s) < at_least:
        x = rng.choice(items)
        if x not in s:
            s.append(x)
    return s


class Planner:
    def __init__(self, prop, seed, cfg):
        self.S = Streams(seed)
        self.rng = self.S.rng("plan")
        r = self.S.rng("swarm")
        faults = bool(cfg.get("faults"))
        self.sw = {
            "bits": subset(r, [2, 4], 0.6),
            "ops": subset(r, OPKINDS, 0.6, at_least=2),
            "states": subset(r, cfg.get("fault_states", FAULT_STATES), 0.5) if faults else [],
            "ranks": subset(r, [1, 2, 3, 4], 0.5),
            "views": subset(r, VIEWS, 0.45),
            "cls": subset(r, CLS, 0.5),
            "aten": subset(r, ATEN, 0.6),
            "max_rows": r.choice([5, 9, 17, 17]),
            "trail": r.choice([[1, 2, 3], [1, 2, 3, 5, 8], [4, 16, 31]]),
            "steps": r.choice([8, 14, 20, 28]),
            "p_raise": r.choice([0.0, 0.3, 0.6]),
            "p_route": r.choice([0.1, 0.2, 0.35]) if faults else 0.0,
            "interrupt": r.random() < 0.3,
        }
        for k, v in (cfg.get("force") or {}).items():
            self.sw[k] = v
        self.n = 0
        self.bytes, self.packs = {}, {}  # id -> (max value, shape) / (bits, shape)
        self.state = "real"

    def emit(self, ops, op):
        ops.append(op)
        self.n += 1
        return op

    def left(self):
        return self.sw["steps"] - self.n

    def payload(self):
        r, sw = self.rng, self.sw
        rank = r.choice(sw["ranks"])
        shape = [1 if r.random() < 0.12 else r.randint(1, sw["max_rows"])] + [r.choice(sw["trail"]) for _ in range(rank - 1)]
        while int(np.prod(shape)) > 2048:  # x2 for strided bases stays within 4096 bytes
            i = max(range(1, rank), key=lambda j: shape[j])
            shape[i] = max(1, shape[i] // 2)
        return {"gen": self.S.sub("payload", self.n), "shape": shape, "cls": r.choice(sw["cls"]), "view": r.choice(sw["views"])}

    def vias(self, packed):
        r = self.rng
        v = [x for x in ["py", "quanto", "ext"] + (["method"] if packed else []) if r.random() < 0.7]
        if "quanto" not in v and "method" not in v and r.random() < 0.85:
            v.append("quanto")
        r.shuffle(v)
        return v or ["quanto"]

    def mandatory(self, ops):
        """every run: one tensor holding all 256 byte values through every entry point, and its packed counterpart"""
        r = self.rng
        self.emit(ops, {"op": "bytes", "id": "b0", "gen": 0, "cls": "all256", "view": "contig", "shape": r.choice([[256], [16, 16], [4, 64], [2, 8, 16], [1, 256], [32, 8], [17, 16], [2, 2, 8, 8]])})
        self.bytes["b0"] = (255, ops[-1]["shape"])
        for bits in self.sw["bits"]:
            self.emit(ops, {"op": "unpack", "x": "b0", "bits": bits, "via": ["py", "quanto", "ext"]})
        bits = r.choice(self.sw["bits"])
        k = r.choice([1, 2])
        self.emit(ops, {"op": "pack", "id": "p0", "bits": bits, "src": {"gen": 0, "cls": "cover", "view": "contig", "shape": [k * 8 // bits, 256 // k]}})
        self.packs["p0"] = (bits, [k * 8 // bits, 256 // k])

    def new_pack(self, ops):
        r = self.rng
        bits = r.choice(self.sw["bits"])
        fits = sorted(i for i, (mx, _) in self.bytes.items() if mx < (1 << bits))
        pid = f"p{self.n}"
        if fits and r.random() < 0.3:  # pack what an earlier unpack returned
            src = r.choice(fits)
            shape = self.bytes[src][1]
        else:
            src = self.payload()
            shape = src["shape"]
        self.emit(ops, {"op": "pack", "id": pid, "bits": bits, "src": src})
        self.packs[pid] = (bits, shape)

    def gen_op(self, ops, depth, route=False):
        r, sw = self.rng, self.sw
        kinds = [k for k in sw["ops"] if k != "noext" or depth < 3]
        if route or (sw["states"] and r.random() < sw["p_route"]):
            if self.state != "real" and r.random() < 0.4:
                self.emit(ops, {"op": "heal"})
                self.state = "real"
            else:
                st = r.choice(sw["states"])
                op = {"op": "arm", "state": st}
                if st == "flaky":
                    op["fail"] = sorted(r.sample(range(6), r.randint(1, 3)))
                    op["exc"] = r.choice(["RuntimeError", "RuntimeError"] + list(EXCS))
                self.emit(ops, op)
                self.state = st
            return
        k = r.choice(kinds)
        if k == "unpack_bytes":
            if not self.bytes or (r.random() < 0.5 and len(self.bytes) < 5):
                bid = f"b{self.n}"
                op = self.emit(ops, dict(self.payload(), op="bytes", id=bid))
                self.bytes[bid] = ({"zeros": 0, "low2": 3}.get(op["cls"], 255), op["shape"])
            bits, x = r.choice(sw["bits"]), r.choice(sorted(self.bytes))
            op = self.emit(ops, {"op": "unpack", "x": x, "bits": bits, "via": self.vias(False)})
            shape = self.bytes[x][1]
            if r.random() < 0.25 and shape[0] * 8 // bits <= 17:
                op["out"] = f"b{self.n}"
                self.bytes[op["out"]] = ((1 << bits) - 1, [shape[0] * 8 // bits] + shape[1:])
        elif k == "meta":
            pool = sorted(self.bytes) + sorted(self.packs)
            if pool:
                x = r.choice(pool)
                self.emit(ops, {"op": "meta", "x": x, "bits": r.choice(sw["bits"])})
        elif k == "refill":
            if self.bytes:
                x = r.choice(sorted(self.bytes))
                self.emit(ops, {"op": "refill", "x": x, "gen": self.S.sub("refill", self.n), "cls": "low2" if self.bytes[x][0] <= 3 else r.choice(sw["cls"])})
                # the refilled buffer is unpacked again right away (same address, same shape, new payload)
                self.emit(ops, {"op": "unpack", "x": x, "bits": r.choice(sw["bits"]), "via": self.vias(False)})
        elif k == "pack":
            self.new_pack(ops)
        elif k == "noext":
            blk = self.emit(ops, {"op": "noext", "body": []})
            if r.random() < 0.25:
                blk["deco"] = r.choice([1, 1, 2, 3])  # decorator on a recursive function instead of a with block
            n = min(self.left(), r.randint(0, 5))
            at = r.randrange(n + 1) if r.random() < sw["p_raise"] else -1
            for i in range(n + 1):
                if i == at:
                    self.emit(blk["body"], {"op": "raise", "exc": "interrupt" if sw["interrupt"] and r.random() < 0.3 else "fault"})
                    if r.random() < 0.5 or depth == 0:
                        blk["catch"] = True
                    if r.random() < 0.7:
                        break  # nothing after the raise would run
                elif i < n and self.left() > 0:
                    self.gen_op(blk["body"], depth + 1)
        else:  # operations on a packed tensor
            if not self.packs or (r.random() < 0.3 and len(self.packs) < 4):
                self.new_pack(ops)
            pid = r.choice(sorted(self.packs))
            bits, shape = self.packs[pid]
            if k == "unpack_packed":
                self.emit(ops, {"op": "unpack", "x": pid, "via": self.vias(True)})
            elif k == "mutate":
                self.emit(ops, {"op": "mutate", "x": pid, "how": r.choice(["unpack", "unpack", "reshape", "select", "slice"]), "mut": r.choice(["add_", "add_", "zero_"]), "k": r.choice([1, 3, 255])})
            elif k == "aten":
                op = self.aten(pid, shape)
                if op["fn"] in ("equal", "eq2", "cat") and r.random() < 0.5:
                    # the second operand is a twin made from the first one's values
                    how = r.choice(["same", "bits", "zero_row", "zero_row"]) if op["fn"] == "equal" else "same"
                    tid = f"p{self.n}t"
                    self.emit(ops, {"op": "twin", "id": tid, "of": pid, "how": how})
                    self.packs[tid] = (bits if how != "bits" else 6 - bits, list(shape) if how != "zero_row" else [shape[0] + 1] + list(shape[1:]))
                    op["other"] = tid
                self.emit(ops, op)
            else:
                op = {"op": k, "x": pid}
                if k == "to":
                    op["how"] = r.choice(["cpu", "cpu_copy", "cpu_method", "uint8", "device_dtype_copy", "device_obj"])
                elif k == "flatten":
                    op["mode"] = r.choice(["unflatten", "state_dict", "state_dict"])
                    if op["mode"] == "state_dict":
                        op.update(prefix=r.choice(PREFIXES), extra=r.random() < 0.5, reverse=r.random() < 0.3)
                if r.random() < 0.4:
                    op["out"] = f"p{self.n}"
                    self.packs[op["out"]] = (bits, shape)
                self.emit(ops, op)

    def aten(self, pid, shape):
        r = self.rng
        fn = r.choice(self.sw["aten"])
        op = {"op": "aten", "x": pid, "fn": fn}
        dim = r.randrange(len(shape))
        neg = lambda d: d - len(shape) if r.random() < 0.35 else d  # the same axis, named from the end
        if fn in ("add", "eq"):
            op["k"] = r.choice([0, 1, 2, 3, 7, 15, 16, 250, 255])
        elif fn == "sum":
            op["dim"] = r.choice([None, 0, -1, dim])
        elif fn == "select":
            op.update(dim=neg(dim), i=r.randrange(shape[dim]))
        elif fn == "slice":
            a = r.randrange(shape[dim])
            op.update(dim=neg(dim), a=a, n=r.randint(0, shape[dim] - a))
        elif fn == "reshape":
            op["shape"] = r.choice([[-1], [shape[0], -1], [-1, shape[0]], list(reversed(shape)), [1] + shape])
        elif fn == "equal":
            # any other packed tensor (other shape, other bits), a packed twin of the same values, or itself
            op.update(other=None if r.random() < 0.25 else r.choice(sorted(self.packs)), first=r.random() < 0.6)
        elif fn in ("stack", "eq2"):
            same = [i for i, (_, s) in self.packs.items() if list(s) == list(shape)]
            op.update(other=None if r.random() < 0.4 else r.choice(sorted(same)), dim=r.choice([0, -1, dim]), first=r.random() < 0.7)
        elif fn == "permute":
            perm = list(range(len(shape)))
            r.shuffle(perm)
            op["perm"] = perm
        elif fn == "cat":
            same = [i for i, (_, s) in self.packs.items() if s[1:] == shape[1:]]
            op.update(other=None if r.random() < 0.4 else r.choice(sorted(same)), dim=0, first=r.random() < 0.7)
            if op["other"] is None and r.random() < 0.3:
                op["dim"] = dim
        return op


def make_plan(prop, seed, cfg):
    P = Planner(prop, seed, cfg)
    r, ops = P.rng, []
    if P.sw["states"] and r.random() < 0.35:  # the all-256 tensor meets a failing extension first
        P.gen_op(ops, 0, route=True)
    P.mandatory(ops)
    while P.left() > 0:
        P.gen_op(ops, 0)
    if r.random() < 0.06:
        # once in a while: a payload big enough for a kernel to split the work across threads
        cols = r.choice([512, 1024, 4096])
        nbytes = r.choice([40000, 70000, 140000, 300000, 650000])
        big = {"op": "big_unpack", "bits": r.choice([2, 4]), "rows": max(1, nbytes // cols), "cols": cols, "threads": r.choice([2, 3, 4]), "gen": P.S.sub("big", 0), "via": ["py", "quanto", "ext"]}
        ops.insert(r.randint(min(2, len(ops)), len(ops)), big)
    if r.random() < 0.5:  # all 256 bytes once more at the end: healed after the faults, or with extensions disabled
        again = {"op": "unpack", "x": "b0", "bits": r.choice(P.sw["bits"]), "via": ["quanto", "ext", "py"]}
        ops += [{"op": "heal"}, again] if P.sw["states"] and r.random() < 0.6 else [{"op": "noext", "body": [again]}]
    while count_ops(ops) > MAX_STEPS:
        ops.pop()
    return {"engine": "K", "prop": prop, "seed": seed, "cfg": cfg, "swarm": P.sw, "init_state": "real", "ops": ops}


def generate(prop, seed, cfg):
    yield make_plan(prop, seed, cfg)


# ------------------------------------------------------------------------------------------------
# argument simplifications for the shrinker


def _walk(ops):
    for op in ops:
        yield op
        if "body" in op:
            yield from _walk(op["body"])


def simplifications(plan):
    flat = list(_walk(plan["ops"]))
    for i, op in enumerate(flat):
        cands = []
        desc = op if op["op"] == "bytes" else (op.get("src") if op["op"] == "pack" and isinstance(op.get("src"), dict) else None)
        if desc is not None:
            s = desc["shape"]
            if len(s) > 1:
                cands += [("shape", s[:-1]), ("shape", s[:1] + [1] * (len(s) - 1))]
            if s[0] > 4:
                cands.append(("shape", [s[0] - 4] + s[1:]))
            if any(x > 2 for x in s[1:]):
                cands.append(("shape", s[:1] + [max(1, x // 2) for x in s[1:]]))
            if desc.get("view", "contig") != "contig":
                cands.append(("view", "contig"))
            if desc.get("cls") not in ("rand", "ramp"):
                cands.append(("cls", "ramp"))
        if op["op"] == "unpack":
            if len(op.get("via", [])) > 1:
                cands += [("via", [v]) for v in op["via"]]
            if op.get("out"):
                cands.append(("out", None))
        if op["op"] == "arm" and op.get("fail") and op["fail"] != [0]:
            cands.append(("fail", [0]))
        if op["op"] == "arm" and op.get("exc", "RuntimeError") != "RuntimeError":
            cands.append(("exc", "RuntimeError"))
        for key, val in cands:
            new = copy.deepcopy(plan)
            tgt = list(_walk(new["ops"]))[i]
            tgt = tgt if tgt["op"] != "pack" or key in ("out",) else tgt["src"]
            if val is None:
                tgt.pop(key, None)
            else:
                tgt[key] = val
            yield new
