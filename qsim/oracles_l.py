"""Operations and oracles of engine L (kept apart from the executor skeleton)."""
import contextlib
import copy
import errno
import gc
import io
import json
import os
import traceback
from functools import partial

import torch

from . import archs, faults, refmodels as R
from .archs import DTYPES
from .core import H, InjectedFault, InjectedInterrupt, hexdigest

F = torch.nn.functional

C09_OPS = {"freeze", "freeze_partial", "refreeze", "deepcopy", "to_cpu"}
C10_OPS = {"save", "load", "restart", "state_dict"}


def QT(name):
    from optimum.quanto.tensor import qtypes

    return None if name is None else qtypes[name]


def qmodules(model):
    from optimum.quanto.nn import QModuleMixin

    return [(n, m) for n, m in model.named_modules() if isinstance(m, QModuleMixin)]


def build_model(arch, dtype, init, wcls):
    m = archs.build(arch, DTYPES[dtype])
    archs.init_model(m, init, wcls)
    m.eval()
    return m


def quanto_site(exc):
    """Innermost frame of the traceback that lies in optimum/quanto: 'file.py:function'."""
    site = "outside-quanto"
    for fs in traceback.extract_tb(exc.__traceback__):
        if "optimum/quanto/" in fs.filename:
            site = f"{os.path.basename(fs.filename)}:{fs.name}"
    return site


# ------------------------------------------------------------------------------------------------
# observers (pure: module-level hooks that record what each quantized module received/produced)


class Rec:
    __slots__ = ("name", "mod", "input", "output", "aq", "in_scale", "out_scale", "g_in", "g_out", "idx", "g_in_local")


def _snap_scale(t):
    return t.detach().clone()


class _Alias(torch.autograd.Function):
    """Identity with a node of its own: same memory, same strides going forward, the very same gradient tensor going
    back (no re-layout on either side, so torch picks the kernels it would pick without the observer)."""

    @staticmethod
    def forward(ctx, x):
        return x.as_strided(x.size(), x.stride(), x.storage_offset())

    @staticmethod
    def backward(ctx, g):
        return g


def _obs_pre(d, name, mod, inp):
    r = Rec()
    r.name, r.mod, r.input = name, mod, inp[0] if len(inp) else None
    r.output = None
    r.g_in = r.g_out = None
    r.g_in_local = False
    r.idx = len(d.obs) + len(d.open)
    d.open.append(r)
    if d.train_mode and type(r.input) is torch.Tensor and r.input.requires_grad:
        # a private alias of the incoming tensor, so that the hook sees the gradient that flows back
        # through *this* module only (the tensor itself may feed a skip connection as well)
        # (as_strided keeps the strides bit for bit; view_as re-derives them, which turns a channels-last batch of one
        # into another layout and makes torch pick another convolution kernel: the observer must stay transparent)
        alias = _Alias.apply(r.input)
        alias.register_hook(lambda g, r=r: setattr(r, "g_in", g))
        r.input = alias
        r.g_in_local = True
        return (alias,) + tuple(inp[1:])
    return None


def _obs_post(d, name, mod, inp, out):
    for i in range(len(d.open) - 1, -1, -1):
        if d.open[i].name == name:
            r = d.open.pop(i)
            break
    else:
        return None
    r.output = out
    r.aq = mod.activation_qtype
    r.in_scale = _snap_scale(mod.input_scale)
    r.out_scale = _snap_scale(mod.output_scale)
    d.obs.append(r)
    if d.train_mode and isinstance(out, torch.Tensor) and out.requires_grad:
        out.register_hook(lambda g, r=r: setattr(r, "g_out", g))
    return None


def install_observers(d):
    remove_observers(d)
    d.train_mode = False
    if os.environ.get("QSIM_NO_OBSERVERS") == "1":
        return  # transparency self-test: the system runs unobserved
    for name, mod in qmodules(d.model):
        d.obs_handles.append(mod.register_forward_pre_hook(partial(_obs_pre, d, name)))
        d.obs_handles.append(mod.register_forward_hook(partial(_obs_post, d, name)))


def remove_observers(d):
    for h in d.obs_handles:
        h.remove()
    d.obs_handles = []
    d.obs = []
    d.open = []


# ------------------------------------------------------------------------------------------------
# inputs


def make_input(d, desc):
    from optimum.quanto import absmax_scale
    from optimum.quanto.tensor import quantize_activation

    shape = tuple(desc.get("lead", [2])) + tuple(desc.get("feat") or d.in_shape)
    x = archs.gen_payload(shape, DTYPES[d.dtype], desc["seed"], desc.get("cls", "noise"), desc.get("mag", 1.0))
    if desc.get("strided"):
        base = torch.zeros(shape[:-1] + (shape[-1] * 2,), dtype=x.dtype)
        base[..., ::2] = x
        x = base[..., ::2]
    if desc.get("q"):
        qt = QT(desc["q"])
        with torch.no_grad():
            x = quantize_activation(x, qt, absmax_scale(x, qt))
    return x


def input_key(desc):
    return hexdigest(json.dumps(desc, sort_keys=True))


# ------------------------------------------------------------------------------------------------
# quantize() : C08 structural oracle, C13 read-only clause


HYPER = {
    "linear": ["in_features", "out_features"],
    "conv": ["in_channels", "out_channels", "kernel_size", "stride", "padding", "dilation", "groups", "padding_mode", "transposed", "output_padding"],
    "ln": ["normalized_shape", "eps", "elementwise_affine"],
}


def unsafe_stack_config(model, weights, activations, dtype):
    """Configurations that this sandbox's torch build cannot execute safely (kept out of every workload,
    see DESIGN section 8): torch._weight_int8pack_mm on CPU segfaults or returns garbage unless
    in_features is a multiple of 16 *and* activations and weights are suitably aligned in memory (tensors
    loaded from a checkpoint are views into one buffer and usually are not), while quanto routes
    bfloat16 x int8 into it whenever in_features % 4 == 0. A crashing process cannot be simulated, so the
    whole route is kept out: bfloat16 models with qint8 weights only get Linear layers with in_features % 4 != 0."""
    lins = [m for m in model.modules() if isinstance(m, torch.nn.Linear)]
    if weights == "qint8" and dtype == "bfloat16" and any(m.in_features % 4 == 0 for m in lins):
        return "int8pack_mm_route"
    return None


def do_quantize(w, d, op, p):
    from optimum.quanto import quantize
    from optimum.quanto.nn import QModuleMixin
    from optimum.quanto.tensor import AbsmaxOptimizer, MaxOptimizer

    model = d.model
    wq, aq = QT(op.get("weights")), QT(op.get("activations"))
    why = unsafe_stack_config(model, op.get("weights"), op.get("activations"), d.dtype)
    if why:
        w.probe("excluded_" + why)
        return "skipped"
    kwargs = {"weights": wq, "activations": aq}
    if op.get("optimizer") == "explicit" and wq is not None:
        kwargs["optimizer"] = AbsmaxOptimizer() if wq.bits == 8 else MaxOptimizer()
    filt = None
    if op.get("filter") is not None:
        filt = []
        for path in op["filter"]:
            try:
                filt.append(model.get_submodule(path))
            except AttributeError:
                pass
    # prediction from the float tree
    before = [(n, m) for n, m in model.named_modules()]
    predicted = {}
    seen = set()
    for n, m in before:
        kind = R.module_kind(m)
        elig = kind in ("linear", "conv") or (kind == "ln" and aq is not None)
        if elig and (filt is None or any(m is f for f in filt)):
            predicted[n] = kind
        seen.add(id(m))
    pre_params = {n: {pn: (pp.detach().clone(), pp.dtype, pp.device, pp.requires_grad) for pn, pp in m.named_parameters(recurse=False)} for n, m in before if n in predicted}
    # the float tensors themselves (C13: quantize() reads them, it must not write them)
    originals = {n: {pn: pp for pn, pp in m.named_parameters(recurse=False)} for n, m in before if n in predicted}
    pre_hyper = {n: {a: getattr(m, a, None) for a in HYPER[predicted[n]]} for n, m in before if n in predicted}
    pre_other = {n: R.tensor_digest(None) for n, m in before}
    other_digest = {n: hexdigest([(pn, R.tensor_digest(pp)) for pn, pp in m.named_parameters(recurse=False)]) for n, m in before if n not in predicted}
    other_mode = {n: m.training for n, m in before if n not in predicted}
    try:
        if filt is None:
            quantize(model, **kwargs)
        else:
            quantize(model, modules=filt, **kwargs)
    except (InjectedFault, InjectedInterrupt):
        raise
    except Exception as e:
        d.broken = True
        w.judged("C08")
        w.violate("C08", "quantize_raises", "quantize", {"exc": type(e).__name__, "at": quanto_site(e)}, f"quantize() raised {e!r} on a tree of listed module kinds", p)
        return "error:" + type(e).__name__
    for n, ps in originals.items():
        for pn, pp in ps.items():
            if R.tbytes(pp) != R.tbytes(pre_params[n][pn][0]):
                w.violate("C13", "readonly_lib", "quantize", {"issue": "original_" + pn + "_modified"}, f"{n}.{pn}: the float tensor read by quantize() was modified in place", p)
    d.quantized = True
    d.qcfg = {"weights": op.get("weights"), "activations": op.get("activations"), "filter": op.get("filter"), "optimizer": op.get("optimizer")}
    d.stamp += 1
    w.judged("C08")
    w.judged("C13")
    after = [(n, m) for n, m in model.named_modules()]
    if [n for n, _ in after] != [n for n, _ in before]:
        shared = '"ref"' in json.dumps(d.arch)
        w.violate("C08", "structure", "quantize", {"issue": "names", "shared_instance": shared}, f"names changed: {[n for n, _ in before]} -> {[n for n, _ in after]}", p)
        if shared:
            d.broken = True  # the second name still holds the gutted original: nothing sensible can follow
    else:
        for (n, mb), (_, ma) in zip(before, after):
            if n in predicted:
                kind = predicted[n]
                if not isinstance(ma, QModuleMixin) or R.module_kind(ma) != kind:
                    w.violate("C08", "structure", "quantize", {"issue": "not_replaced", "kind": kind}, f"{n} ({type(mb).__name__}) was not replaced: {type(ma).__name__}", p)
                    continue
                # parameters preserved bit for bit, same dtype/device (the statement lists values, hyper-parameters, dtype,
                # device and names; quantize() makes every parameter trainable again, which it does not rule out)
                for pn, (val, dt, dev, rg) in pre_params[n].items():
                    pa = getattr(ma, pn, None)
                    if pa is not None and pa.requires_grad != rg:
                        w.probe("requires_grad_reset_by_quantize")
                    if pa is None or pa.dtype != dt or pa.device != dev or R.tbytes(pa) != R.tbytes(val):
                        w.violate("C08", "structure", "quantize", {"issue": "param_" + pn, "kind": kind}, f"{n}.{pn} not preserved", p)
                        # C13: quantize() must copy the float tensors bit for bit
                        w.violate("C13", "readonly_lib", "quantize", {"issue": "param_" + pn}, f"{n}.{pn} not preserved", p)
                npar = {pn for pn, _ in ma.named_parameters(recurse=False)}
                if npar != set(pre_params[n]):
                    w.violate("C08", "structure", "quantize", {"issue": "param_set", "kind": kind}, f"{n}: {sorted(npar)} vs {sorted(pre_params[n])}", p)
                for a, v in pre_hyper[n].items():
                    if getattr(ma, a, None) != v:
                        w.violate("C08", "structure", "quantize", {"issue": "hyper_" + a, "kind": kind}, f"{n}.{a}: {getattr(ma, a, None)} != {v}", p)
                exp_wq = None if kind == "ln" else wq
                if ma.weight_qtype != exp_wq or ma.activation_qtype != aq:
                    w.violate("C08", "structure", "quantize", {"issue": "qtypes", "kind": kind}, f"{n}: {ma.weight_qtype}/{ma.activation_qtype}", p)
                if ma.training != mb.training and False:
                    pass
            else:
                if ma is not mb:
                    w.violate("C08", "structure", "quantize", {"issue": "touched_other"}, f"{n} ({type(mb).__name__}) was replaced by {type(ma).__name__}", p)
                elif hexdigest([(pn, R.tensor_digest(pp)) for pn, pp in ma.named_parameters(recurse=False)]) != other_digest[n]:
                    w.violate("C08", "structure", "quantize", {"issue": "changed_other"}, f"{n} parameters changed", p)
                elif ma.training != other_mode[n]:
                    w.violate("C08", "structure", "quantize", {"issue": "mode_of_other"}, f"{n or '<root>'} ({type(ma).__name__}): training flag {other_mode[n]} -> {ma.training}", p)
    install_observers(d)
    for n, m in qmodules(model):
        d.ema[n] = {"in": False, "out": False}
    w.log.add("quantized", d.id, R.state_digest(model))
    return "ok"


# ------------------------------------------------------------------------------------------------
# twin oracle (C08)


def direct_qweight(mod):
    """The quantized weight the module must be using: the stored one when frozen, else a direct
    quantize_weight call on the *current* float weight (so that a cached dynamic weight shows)."""
    from optimum.quanto.tensor import QTensor, quantize_weight

    if mod.weight_qtype is None:
        return None
    if isinstance(mod.weight, QTensor):
        return mod.weight
    with torch.no_grad():
        return quantize_weight(mod.weight.detach(), qtype=mod.weight_qtype, axis=0, group_size=mod.weight_group_size, optimizer=mod.optimizer)


def float_twin_runs(mod, x):
    """Would the float original run on the dequantized input as it is (native dtypes)? If it would not
    (e.g. a float32 tensor reaching a float16 module), the quantized module raising is not judged."""
    kind = R.module_kind(mod)
    try:
        with torch.no_grad():
            xd = x.dequantize() if R.is_q(x) else x
            W = direct_qweight(mod).dequantize() if mod.weight_qtype is not None else mod.weight
            if kind == "linear":
                F.linear(xd, W, mod.bias)
            elif kind == "conv":
                torch.nn.Conv2d._conv_forward(mod, xd, W, mod.bias)
            elif kind == "ln":
                F.layer_norm(xd, mod.normalized_shape, W, mod.bias, mod.eps)
            else:
                return False
        return True
    except Exception:
        return False


def twin_eval(mod, x, aq, in_scale, wdt, widen=False):
    """Float64 twin output and its error bound. With widen=True the bound additionally models a known
    defect (float16 only): the quantized linear multiplies the input scale by the weight scales in float16,
    and that product falls into the subnormal range for small scales (always with qfloat8_e5m2 activations)."""
    from optimum.quanto.tensor import QBytesTensor

    with torch.no_grad():
        x64 = R.effective_input64(mod, x, aq, in_scale)
        W = None
        if mod.weight_qtype is not None:
            W = direct_qweight(mod)
            w64 = R.dq64(W)
        else:
            w64 = None if mod.weight is None else mod.weight.detach().to(torch.float64)
        b64 = None if getattr(mod, "bias", None) is None else mod.bias.detach().to(torch.float64)
        y64, M, k, cond = R.twin_raw(mod, x64, w64, b64)
        bound = R.raw_bound(M, k, cond, wdt)
        xq = effective_qtensor(mod, x, aq, in_scale) if (widen and wdt == torch.float16 and R.module_kind(mod) == "linear" and isinstance(W, QBytesTensor)) else None
        if xq is not None:
            prod = float(xq._scale.detach().to(torch.float64).abs().max()) * W._scale.detach().to(torch.float64).reshape(-1).abs()
            if prod.numel() == 1:
                prod = prod.expand(w64.shape[0])
            sub = prod < 6.2e-5
            if bool(sub.any()):
                delta = torch.where(sub, 2.0**-24 / prod.clamp(min=1e-300), torch.zeros_like(prod))
                Mx = F.linear(x64.abs(), w64.abs())
                bound = bound + delta.clamp(max=1.0) * Mx * 1.5
    return y64, bound


def effective_qtensor(mod, x, aq, in_scale):
    """The quantized tensor the module's kernel actually consumes, or None when it consumes floats
    (mirrors QModuleMixin.forward / qforward; quantization itself is quanto's)."""
    from optimum.quanto.tensor import QBytesTensor, quantize_activation

    with torch.no_grad():
        if isinstance(x, QBytesTensor):
            if aq is None or (x.qtype == aq and x.axis is None):
                return x
            return quantize_activation(x.dequantize().detach(), qtype=aq, scale=in_scale)
        if aq is not None and R.module_kind(mod) in ("linear", "conv"):
            return quantize_activation(x.detach(), qtype=aq, scale=in_scale)
    return None


def code_space_overflow(mod, rec, wdt):
    """Known defect tag: with 8-bit float weights the matmul runs on the *codes* in the module dtype and
    is scaled afterwards; in float16 the code-space product can overflow although the result is
    representable. True when that is possible for this call (|x codes|.|w codes| exceeds the float16 max)."""
    from optimum.quanto.tensor import QBytesTensor

    if wdt != torch.float16 or R.module_kind(mod) != "linear" or mod.weight_qtype is None or not mod.weight_qtype.is_floating_point:
        return None
    try:
        with torch.no_grad():
            W = direct_qweight(mod)
            if not isinstance(W, QBytesTensor):
                return None
            wc = W._data.to(torch.float64).abs()
            xq = effective_qtensor(mod, rec.input, rec.aq, rec.in_scale)
            if xq is not None:
                if not xq.qtype.is_floating_point:
                    return None  # int8 activations run the product in float32
                xc = xq._data.detach().to(torch.float64).abs()
            else:
                xc = rec.input.detach().to(torch.float64).abs()
            m = float(F.linear(torch.nan_to_num(xc, nan=0.0, posinf=0.0), torch.nan_to_num(wc, nan=0.0, posinf=0.0)).max())
        return "float16_code_space_overflow" if m >= 65504.0 * 0.5 else None
    except Exception:
        return None


def check_twin(w, d, rec, p, opkind="forward", prop="C08"):
    """prop="C11": the same oracle serves the freshness clause (every forward re-quantizes from the current
    float weights): only numeric disagreements without a known-defect tag are reported there."""
    from optimum.quanto.tensor import QBytesTensor

    mod = rec.mod
    kind = R.module_kind(mod)
    wdt = DTYPES[d.dtype]
    base_sig = {"kind": kind, "wq": str(mod.weight_qtype.name) if mod.weight_qtype else None, "aq": rec.aq.name if rec.aq else None, "dtype": d.dtype}
    try:
        y64, bound = twin_eval(mod, rec.input, rec.aq, rec.in_scale, wdt)
    except Exception as e:
        w.probe("twin_not_evaluable")
        w.log.add("twin-not-evaluable", rec.name, type(e).__name__)
        return
    w.judged(prop)
    out = rec.output
    if os.environ.get("QSIM_DEBUG_TWIN"):
        _dbg = getattr(w, "_dbg", [])
        _dbg.append({"name": rec.name, "mod": mod, "x": rec.input, "out": out, "y64": y64, "bound": bound, "aq": rec.aq, "in_scale": rec.in_scale, "out_scale": rec.out_scale, "p": list(p)})
        w._dbg = _dbg
    if tuple(out.shape) != tuple(y64.shape):
        x = rec.input
        w.violate(prop, "twin", opkind, dict(base_sig, issue="shape", in_rank=x.ndim), f"{rec.name}: output shape {tuple(out.shape)} twin {tuple(y64.shape)}", p)
        return
    fmax = float(torch.finfo(wdt).max)
    mask = torch.isfinite(y64) & torch.isfinite(bound) & ((y64.abs() + bound) < fmax) & ((bound / (R.C_ROUND * R.eps_of(wdt))) < 0.5 * fmax)
    cause = code_space_overflow(mod, rec, wdt)
    if cause:
        base_sig["cause"] = cause
        w.probe(cause)
    if rec.aq is None:
        if R.is_q(out):
            w.violate(prop, "twin", opkind, dict(base_sig, issue="type"), f"{rec.name}: quantized output without activation qtype", p)
            return
        if out.dtype != wdt:
            w.violate(prop, "twin", opkind, dict(base_sig, issue="dtype"), f"{rec.name}: output dtype {out.dtype}", p)
        o64 = out.detach().to(torch.float64)
        good = (o64 - y64).abs() <= bound
        bad = mask & ~good
        if bool(bad.any()) and "cause" not in base_sig and wdt == torch.float16:
            y64w, boundw = twin_eval(mod, rec.input, rec.aq, rec.in_scale, wdt, widen=True)
            if not bool((mask & ~((o64 - y64w).abs() <= boundw)).any()):
                base_sig["cause"] = "float16_scale_product_underflow"
                w.probe("float16_scale_product_underflow")
        if bool(bad.any()) and os.environ.get("QSIM_DEBUG_TWIN"):
            import sys as _sys

            W_ = direct_qweight(mod)
            xd_ = (rec.input.dequantize() if R.is_q(rec.input) else rec.input).detach().double()
            print("DEBUG twin", rec.name, base_sig, "x", type(rec.input).__name__, tuple(rec.input.shape), "absmax", float(xd_.abs().max()), "W", type(W_).__name__, "scale", float(W_._scale.abs().min()), float(W_._scale.abs().max()), "codes absmax", float(torch.nan_to_num(W_._data.double() if not hasattr(W_._data, "unpack") else W_._data.unpack().double()).abs().max()), "bias", None if mod.bias is None else float(mod.bias.abs().max()), "maxerr", float(((o64 - y64).abs() * mask).max()), "maxbound", float(bound.max()), file=_sys.stderr)
            if R.module_kind(mod) == "linear" and not hasattr(W_._data, "unpack"):
                cs = F.linear(xd_.abs(), torch.nan_to_num(W_._data.double()).abs())
                print("   code-space |x|.|c| max", float(cs.max()), "signed max", float(F.linear(xd_, torch.nan_to_num(W_._data.double())).abs().max()), file=_sys.stderr)
        if bool(bad.any()):
            nonfinite = bool((bad & ~torch.isfinite(o64)).any())
            i = int(torch.nonzero(bad.reshape(-1))[0])
            w.violate(
                prop,
                "twin",
                opkind,
                dict(base_sig, issue="nonfinite" if nonfinite else "value"),
                f"{rec.name}: {int(bad.sum())}/{bad.numel()} elements off; first idx {i}: got {o64.reshape(-1)[i].item()} twin {y64.reshape(-1)[i].item()} bound {bound.reshape(-1)[i].item()}",
                p,
            )
        return
    # activations on: output must be re-quantized with the module's output scale
    if not isinstance(out, QBytesTensor) or out.qtype != rec.aq or out.axis is not None:
        w.violate(prop, "twin", opkind, dict(base_sig, issue="type"), f"{rec.name}: output {type(out).__name__} {getattr(out, 'qtype', None)} axis {getattr(out, 'axis', None)}", p)
        return
    if R.tbytes(out._scale.reshape(())) != R.tbytes(rec.out_scale.to(out._scale.dtype).reshape(())):
        w.violate(prop, "twin", opkind, dict(base_sig, issue="out_scale"), f"{rec.name}: output carries scale {out._scale.item()} module has {rec.out_scale.item()}", p)
        return
    s = float(out._scale)
    if not (s > 0 and s < float("inf")):
        w.probe("degenerate_output_scale")
        return
    lo, hi = R.code_interval(y64, bound, s, rec.aq, wdt)
    c64 = out._data.detach().to(torch.float64)
    good = (c64 >= lo) & (c64 <= hi)
    bad = mask & ~good
    if bool(bad.any()) and "cause" not in base_sig and wdt == torch.float16:
        # explained by the float16 scale-product underflow (known defect)? then say so in the class
        y64w, boundw = twin_eval(mod, rec.input, rec.aq, rec.in_scale, wdt, widen=True)
        low, hiw = R.code_interval(y64w, boundw, s, rec.aq, wdt)
        if not bool((mask & ~((c64 >= low) & (c64 <= hiw))).any()):
            base_sig["cause"] = "float16_scale_product_underflow"
            w.probe("float16_scale_product_underflow")
    if bool(bad.any()):
        i = int(torch.nonzero(bad.reshape(-1))[0])
        w.violate(
            prop,
            "twin",
            opkind,
            dict(base_sig, issue="codes"),
            f"{rec.name}: {int(bad.sum())}/{bad.numel()} codes off; first idx {i}: code {c64.reshape(-1)[i].item()} admissible [{lo.reshape(-1)[i].item()}, {hi.reshape(-1)[i].item()}] twin {y64.reshape(-1)[i].item()} scale {s}",
            p,
        )


# ------------------------------------------------------------------------------------------------
# EMA oracle (C12)


def scale_snapshot(d):
    return {n: (float(m.input_scale), float(m.output_scale), m.activation_qtype, m.input_scale.dtype) for n, m in qmodules(d.model)}


def _law(obs, old, new, m, init, tol):
    """Classify an observed scale against the EMA law. Returns None if it follows, else a cause."""
    expect = new if not init else m * old + (1.0 - m) * new
    if abs(obs - expect) <= tol:
        return None
    if init and m != 0.9 and abs(obs - (0.9 * old + 0.1 * new)) <= tol:
        return "momentum_default_0.9_used"
    if init and old == 1.0 and abs(obs - new) <= tol:
        return "reinitialised_because_scale_was_exactly_1"
    if not init and abs(obs - (m * old + (1.0 - m) * new)) <= tol and old != 1.0:
        return "first_batch_averaged"
    return "other"


def check_ema(w, d, pre, aborted, p):
    from optimum.quanto.tensor import QBytesTensor

    m = float(w.cur_calib[0])
    wdt = DTYPES[d.dtype]
    counts = {}
    for r in d.obs:
        counts[r.name] = counts.get(r.name, 0) + 1
    complete = {r.name: r for r in d.obs if counts[r.name] == 1}
    opened = {r.name for r in d.open}
    for name, mod in qmodules(d.model):
        old_in, old_out, aq0, sdt = pre[name]
        st = d.ema.setdefault(name, {"in": False, "out": False})
        now_in, now_out = float(mod.input_scale), float(mod.output_scale)
        if aq0 is None:
            continue
        rec = complete.get(name)
        if rec is None:
            if name in opened or counts.get(name, 0) > 1 or aborted:
                # in progress when the fault hit (or called twice): not judged on this batch; adopt what is there
                if now_in != old_in:
                    st["in"] = True
                if now_out != old_out:
                    st["out"] = True
                continue
            same = lambda a, b: a == b or (a != a and b != b)  # NaN scales (0/0 on all-zero activations) stay NaN
            if not same(now_in, old_in) or not same(now_out, old_out):
                w.violate("C12", "ema", "forward", {"which": "untouched", "cause": "module_not_run_but_scale_changed"}, f"{name}: scales changed without the module being run", p)
            continue
        w.judged("C12")
        qmax = R.qrange(aq0)[1]
        # working precision of the scale arithmetic: the coarser of the dtypes the scales have/had
        dts = [t for t in (sdt, mod.input_scale.dtype, mod.output_scale.dtype, wdt) if t.is_floating_point]
        u = max(R.eps_of(t) for t in dts)
        sub = max(float(torch.finfo(t).tiny * torch.finfo(t).eps) for t in dts)
        if not all(map(lambda v: v == v and abs(v) != float("inf"), (old_in, old_out, now_in, now_out))):
            w.probe("non_finite_scale")
            st["in"] = st["out"] = True
            continue
        x = rec.input
        # ---- input scale
        if isinstance(x, QBytesTensor):
            new_in = float(torch.max(x._scale))
            cause = None if (now_in == new_in or new_in != new_in) else "quantized_input_scale_not_adopted"
            tol_in = 0.0
            w.probe("module_fed_quantized_tensor")
        else:
            amax = float(x.detach().to(torch.float64).abs().max())
            new_in = amax / qmax
            tol_in = 16 * u * max(abs(old_in), abs(new_in), abs(now_in)) + 4 * sub
            cause = _law(now_in, old_in, new_in, m, st["in"], tol_in)
            if cause is not None and aborted and abs(now_in - old_in) == 0:
                cause = None
            if cause is None and not st["in"] and now_in > 0 and amax > qmax * (now_in * (1 + 16 * u) + 4 * sub):
                cause = "first_batch_saturates"
        if new_in == 1.0 or now_in == 1.0:
            w.probe("scale_exactly_one")
        if cause is not None:
            w.violate("C12", "ema", "forward", {"which": "input", "cause": cause}, f"{name}: input_scale {now_in} old {old_in} batch {new_in} momentum {m} initialised {st['in']}", p)
        st["in"] = True
        # ---- output scale: raw twin output with the updated input scale
        try:
            # widened bound: how precise the raw output is, is C08's business (known float16 defects), not the law's
            y64, bound = twin_eval(mod, x, aq0, mod.input_scale.detach(), wdt, widen=True)
        except Exception:
            w.probe("twin_not_evaluable")
            st["out"] = True
            continue
        fin = torch.isfinite(y64)
        if not bool(fin.all()):
            st["out"] = True
            continue
        ymax = float(y64.abs().max())
        bmax = float(bound.max())
        new_out = ymax / qmax
        tol_out = 16 * u * max(abs(old_out), abs(new_out), abs(now_out)) + 2 * bmax / qmax + 4 * sub
        cause = _law(now_out, old_out, new_out, m, st["out"], tol_out)
        if cause is not None and aborted and now_out == old_out:
            cause = None
        if cause is None and not st["out"] and now_out > 0 and (ymax - bmax) > qmax * (now_out * (1 + 16 * u) + 4 * sub):
            cause = "first_batch_saturates"
        if new_out == 1.0 or now_out == 1.0:
            w.probe("scale_exactly_one")
        if cause is not None:
            w.violate("C12", "ema", "forward", {"which": "output", "cause": cause}, f"{name}: output_scale {now_out} old {old_out} batch {new_out}+-{bmax / qmax} momentum {m} initialised {st['out']}", p)
        st["out"] = True


# ------------------------------------------------------------------------------------------------
# forward


def grad_ctx(mode):
    if mode == "enable_grad":
        return torch.enable_grad()
    return torch.no_grad()


def all_state_digests(w):
    return {i: R.state_digest(x.model) for i, x in w.deps.items() if x.model is not None and not x.broken}


def memo_check(w, d, key, out, p, opkind="forward"):
    dig = R.tensor_digest(out)
    k = (d.stamp, key)
    ent = d.memo.get(k)
    if ent is None:
        d.memo[k] = (dig, len(d.oplog))
        return
    via = set(x.split(":")[0] for x in d.oplog[ent[1] :])
    v9, v10 = via & C09_OPS, via & C10_OPS
    q = d.qcfg or {}
    base = {"wq": q.get("weights"), "aq": q.get("activations")}
    if d.taint:
        base["taint"] = d.taint
    det = f"dep {d.id}: output on a memoised input differs (stamp {d.stamp}); ops since: {d.oplog[ent[1]:]}"
    # one mismatch, one property: the one in focus when an op of its kind lies in between; a pure
    # repeat (nothing output-preserving in between) belongs to C13
    if w.focus("C09") and v9:
        w.judged("C09")
        if dig != ent[0]:
            w.violate("C09", "memo", opkind, dict(base, via=",".join(sorted(v9))), det, p)
    elif w.focus("C10") and v10:
        w.judged("C10")
        if dig != ent[0]:
            w.violate("C10", "memo", opkind, dict(base, via=",".join(sorted(v10))), det, p)
    elif w.focus("C13") and not v9 and not v10:
        w.judged("C13")
        if dig != ent[0]:
            w.violate("C13", "repeat", opkind, dict(base), det, p)


def do_forward(w, d, op, p):
    key = input_key(op["input"])
    last = getattr(w, "last_input", None)
    if op.get("same_tensor") and last is not None and last[0] == key and last[2] == (tuple(d.in_shape), d.dtype):
        x = last[1]  # the very tensor object the previous forward consumed
        w.probe("same_tensor_object_fed_to_two_models")
    else:
        # the caller re-uses its batch objects: the same descriptor is the same tensor object for the same
        # deployment shape/dtype (a library cache keyed on tensor identity then meets the identity again)
        ck = (key, tuple(d.in_shape), d.dtype)
        cache = w.__dict__.setdefault("input_cache", {})
        x = cache.get(ck)
        if x is None and op.get("refill_of") is not None:
            # ... or refills the buffer of an earlier batch in place, behind the back of torch's version counter
            pk = (input_key(op["refill_of"]), tuple(d.in_shape), d.dtype)
            old = cache.get(pk)
            new = make_input(d, op["input"])
            if old is not None and not R.is_q(old) and not R.is_q(new) and tuple(old.shape) == tuple(new.shape) and old.dtype == new.dtype:
                old.data.copy_(new)
                cache.pop(pk, None)
                cache[ck] = x = old
                w.probe("batch_object_refilled_in_place")
        if x is None:
            x = make_input(d, op["input"])
            if len(cache) < 32:
                cache[ck] = x
        else:
            w.probe("batch_object_reused")
    if op.get("input_from") is not None:
        # stage-wise use: the output an earlier (sub-module) run produced and the caller kept is fed to this run
        x = w.__dict__.setdefault("kept", {}).get((d.id, op["input_from"]))
        if x is None:
            return "skipped"
        w.probe("kept_output_fed_to_a_later_run")
    w.last_input = (key, x, (tuple(d.in_shape), d.dtype))
    depth0 = w.depth == 0
    c13 = w.focus("C13") and depth0
    if c13:
        pre_dig = all_state_digests(w)
        xdig = R.input_digest(x)
    pre_scales = scale_snapshot(d) if (w.depth > 0 and d.quantized) else None
    fd = op.get("fault")
    if w.no_observers:
        fd = None  # transparency self-test (a): no hooks, no modes
    inj = faults.arm(fd, lambda path: dict(d.model.named_modules()).get(path))
    if w.arm_silent and not fd:
        inj = faults.SilentArmed()  # transparency self-test (c): armed but never firing
    d.obs = []
    d.open = []
    d.train_mode = False
    out = None
    exc = None
    target = d.model
    if op.get("sub") is not None:
        # only a part of the model is run (its tail, say), on an input of that part's own shape
        try:
            target = d.model.get_submodule(op["sub"])
            w.probe("submodule_run_on_its_own")
        except AttributeError:
            return "skipped"
    try:
        with grad_ctx(op.get("grad", "no_grad")), inj:
            out = target(x)
    except (InjectedFault, InjectedInterrupt) as e:
        exc = e
    except Exception as e:
        exc = e
    if op.get("keep") is not None and exc is None and isinstance(out, torch.Tensor):
        w.__dict__.setdefault("kept", {})[(d.id, op["keep"])] = out
    if fd:
        from .core import bump

        bump(w.res["faults_armed"], inj.kind)
        if inj.fired:
            bump(w.res["faults_fired"], inj.kind)
            if w.depth > 0:
                w.probe("fault_inside_calibration_block")
                if any(fs.name in ("calibrate_input", "calibrate_output") for fs in traceback.extract_tb(exc.__traceback__)) if exc is not None else False:
                    w.probe("fault_inside_global_hook")
    if w.depth > 0:
        d.stamp += 1
        d.calibrated = True
    injected = isinstance(exc, (InjectedFault, InjectedInterrupt))
    # ---- C08 twin on everything that completed
    if w.focus("C11"):
        for r in d.obs:
            check_twin(w, d, r, p, prop="C11")
    if w.focus("C08"):
        for r in d.obs:
            check_twin(w, d, r, p)
        if exc is not None and not injected and d.open:
            r = d.open[-1]
            twin_ok = float_twin_runs(r.mod, r.input)
            if twin_ok:
                w.judged("C08")
                xin = r.input
                w.violate(
                    "C08",
                    "raises_where_twin_runs",
                    "forward",
                    {"kind": R.module_kind(r.mod), "exc": type(exc).__name__, "at": quanto_site(exc), "in_q": R.is_q(xin), "in_rank": xin.ndim if isinstance(xin, torch.Tensor) else -1},
                    f"{r.name}: {exc!r}"[:600],
                    p,
                )
    # ---- C12
    if w.focus("C12") and w.depth == 1 and not w.nested_calib and pre_scales is not None:
        check_ema(w, d, pre_scales, exc is not None, p)
    elif w.depth > 0 and d.quantized:
        for n, m in qmodules(d.model):
            st = d.ema.setdefault(n, {"in": False, "out": False})
            if pre_scales and float(m.input_scale) != pre_scales[n][0]:
                st["in"] = True
            if pre_scales and float(m.output_scale) != pre_scales[n][1]:
                st["out"] = True
    # ---- memo
    if exc is None and depth0 and op.get("sub") is None:
        memo_check(w, d, key, out, p)
    # ---- C13 read-only inference
    if c13:
        w.judged("C13")
        post_dig = all_state_digests(w)
        for i, dg in pre_dig.items():
            if post_dig.get(i) != dg:
                w.violate("C13", "readonly_forward", "forward", {"who": "self" if i == d.id else "other", "completed": exc is None}, f"state of dep {i} changed by a forward of dep {d.id} outside any calibration context", p)
        if R.input_digest(x) != xdig:
            w.violate("C13", "readonly_forward", "forward", {"who": "input"}, "input tensor modified by forward", p)
            w.__dict__.get("input_cache", {}).pop((key, tuple(d.in_shape), d.dtype), None)
    # ---- the caller rescales / overwrites the tensor the model returned, in place: that tensor is the caller's
    if c13 and exc is None and op.get("mutate_out") and isinstance(out, torch.Tensor) and not (isinstance(out, torch.Tensor) and out.requires_grad):
        how = op["mutate_out"]
        try:
            with torch.no_grad():
                if how == "mul":
                    out *= 4.0
                elif how == "div":
                    out /= 8.0
                elif not R.is_q(out):
                    out.zero_()
        except Exception:
            pass
        w.probe("returned_output_overwritten_by_caller:" + how)
        after_dig = all_state_digests(w)
        for i, dg in post_dig.items():
            if after_dig.get(i) != dg:
                w.violate("C13", "readonly_forward", "forward", {"who": "self" if i == d.id else "other", "completed": True, "after": "caller_wrote_into_returned_output"}, f"state of dep {i} changed when the caller rescaled the output returned by dep {d.id} in place ({how})", p)
    d.obs = []
    d.open = []
    if exc is not None:
        if injected:
            raise exc
        w.probe("workload_error:" + type(exc).__name__)
        w.log.add("workload-error", type(exc).__name__, quanto_site(exc), str(exc)[:160])
        from .engine_l import WorkloadError

        raise WorkloadError(exc)
    w.log.add("out", R.tensor_digest(out))
    return "ok"


# ------------------------------------------------------------------------------------------------
# freeze (C09), C06 invariant on weights


def check_weights_invariant(w, d, opkind, p):
    if not w.focus("C06"):
        return
    from optimum.quanto.tensor import QTensor

    for n, m in qmodules(d.model):
        if isinstance(m.weight, QTensor):
            w.judged("C06")
            q = m.weight.data if isinstance(m.weight, torch.nn.Parameter) else m.weight
            for issue, det in R.qinvariant(q):
                w.violate("C06", "invariant", opkind, {"issue": issue, "cls": type(q).__name__}, f"{n}.weight: {det}", p)


def geometry_issues(mod):
    """C09(4): storage geometry of a frozen weight."""
    from optimum.quanto.tensor import QBitsTensor, QBytesTensor

    q = mod.weight.data if isinstance(mod.weight, torch.nn.Parameter) else mod.weight
    out = []
    shape = tuple(q.shape)
    numel = q.numel()
    rows = shape[0]
    if q.qtype != mod.weight_qtype:
        out.append(("qtype", f"{q.qtype} vs requested {mod.weight_qtype}"))
    if isinstance(q, QBytesTensor):
        if q._data.numel() != numel or q._data.element_size() != 1:
            out.append(("payload_bytes", f"{q._data.numel()}x{q._data.element_size()} for {numel} elements"))
        want = 1 if rows == 1 else rows
        if q._scale.numel() != want:
            out.append(("scale_count", f"{q._scale.numel()} scales for {rows} output indices"))
    elif isinstance(q, QBitsTensor):
        bits = q.qtype.bits
        gs = q._group_size
        R_ = numel // gs if gs is not None else rows
        cols = numel // R_
        inner = q._data._data
        want_bytes = -(-R_ * bits // 8) * cols
        if inner.numel() * inner.element_size() != want_bytes:
            out.append(("payload_bytes", f"{inner.numel() * inner.element_size()} bytes, want ceil({R_}*{bits}/8)*{cols}={want_bytes}"))
        if q._scale.numel() != R_ or q._zeropoint.numel() != R_:
            out.append(("scale_count", f"{q._scale.numel()}/{q._zeropoint.numel()} for {R_} rows/groups"))
        if q._zeropoint.dtype != torch.int8:
            out.append(("zeropoint_dtype", str(q._zeropoint.dtype)))
    else:
        out.append(("class", type(q).__name__))
    return out


def do_freeze(w, d, op, p):
    from optimum.quanto import freeze
    from optimum.quanto.tensor import QTensor, quantize_weight

    mods = qmodules(d.model)
    subset = op.get("subset")
    targets = [(n, m) for n, m in mods if subset is None or n in subset]
    if not targets:
        return "skipped"
    c9 = w.focus("C09")
    c13 = w.focus("C13")
    info = {}
    if c9 or c13:
        for n, m in mods:
            was = isinstance(m.weight, QTensor)
            info[n] = {
                "was": was,
                "w": R.tensor_digest(m.weight),
                "float": None if was or m.weight is None else m.weight.detach().clone(),
                "rest": hexdigest(R.tensor_digest(getattr(m, "bias", None)), R.tensor_digest(m.input_scale), R.tensor_digest(m.output_scale), str(m.weight_qtype), str(m.activation_qtype)),
            }
        others = {n: hexdigest([(k, R.tensor_digest(v)) for k, v in m.state_dict(keep_vars=True).items()]) for n, m in d.model.named_modules() if not any(m is qm for _, qm in mods) and not list(m.children())}
    fd = op.get("fault")
    inj = faults.arm(fd, lambda path: None)
    exc = None
    try:
        with inj:
            if subset is None:
                freeze(d.model)
            else:
                for n, m in targets:
                    m.freeze()
    except (InjectedFault, InjectedInterrupt) as e:
        exc = e
    except Exception as e:
        exc = e
    if fd:
        from .core import bump

        bump(w.res["faults_armed"], inj.kind)
        if inj.fired:
            bump(w.res["faults_fired"], inj.kind)
            w.probe("freeze_aborted_midway")
    all_frozen = all(isinstance(m.weight, QTensor) or m.weight_qtype is None for _, m in mods)
    any_frozen = any(isinstance(m.weight, QTensor) for _, m in mods)
    all_were = all(i["was"] or m.weight_qtype is None for (n, m), i in zip(mods, info.values())) if info else False
    kind = "refreeze" if (info and all(info[n]["was"] or m.weight_qtype is None for n, m in targets)) else ("freeze" if subset is None else "freeze_partial")
    d.oplog.append(kind)
    d.frozen = "all" if all_frozen else ("partial" if any_frozen else "no")
    if kind == "freeze_partial" or (inj.fired and any_frozen and not all_frozen):
        w.probe("partial_freeze")
    if c9:
        w.judged("C09")
        for n, m in mods:
            i = info[n]
            is_target = any(n == tn for tn, _ in targets)
            now = isinstance(m.weight, QTensor)
            base = {"wq": m.weight_qtype.name if m.weight_qtype else None}
            if is_target and exc is None and m.weight_qtype is not None and not now:
                w.violate("C09", "freeze_effect", kind, dict(base, issue="not_frozen"), f"{n}: weight still float after freeze", p)
            if i["was"]:
                if R.tensor_digest(m.weight) != i["w"]:
                    w.violate("C09", "idempotence", kind, dict(base, issue="weight_changed"), f"{n}: frozen weight changed by another freeze", p)
            elif now:
                # (3) agreement with the dynamic path
                with torch.no_grad():
                    ref = quantize_weight(i["float"], qtype=m.weight_qtype, axis=0, group_size=m.weight_group_size, optimizer=m.optimizer)
                got = m.weight.data if isinstance(m.weight, torch.nn.Parameter) else m.weight
                if R.tensor_digest(ref) != R.tensor_digest(got):
                    w.violate("C09", "agreement", kind, dict(base, issue="differs_from_dynamic"), f"{n}: frozen weight differs from quantize_weight(float weight)", p)
                for issue, det in geometry_issues(m):
                    w.violate("C09", "geometry", kind, dict(base, issue=issue), f"{n}: {det}", p)
                # what is stored after freeze is the payload and its scale(s), not a graph that keeps the float weight
                leaves, _ = R.inner_items(got)
                for ln, lt in leaves:
                    if isinstance(lt, torch.Tensor) and (lt.grad_fn is not None or lt.requires_grad):
                        w.violate("C09", "geometry", kind, dict(base, issue="stored_tensor_attached_to_graph"), f"{n}: {ln} of the frozen weight has grad_fn={type(lt.grad_fn).__name__} requires_grad={lt.requires_grad}: the float weight stays alive behind it", p)
                        break
            elif not is_target and R.tensor_digest(m.weight) != i["w"]:
                w.violate("C09", "untouched", kind, dict(base, issue="non_target_weight"), f"{n}: weight of a module outside the freeze changed", p)
            rest = hexdigest(R.tensor_digest(getattr(m, "bias", None)), R.tensor_digest(m.input_scale), R.tensor_digest(m.output_scale), str(m.weight_qtype), str(m.activation_qtype))
            if rest != i["rest"]:
                w.violate("C09", "untouched", kind, dict(base, issue="bias_or_scales"), f"{n}: bias/scales/qtypes changed by freeze", p)
        for n, m in d.model.named_modules():
            if n in others and hexdigest([(k, R.tensor_digest(v)) for k, v in m.state_dict(keep_vars=True).items()]) != others[n]:
                w.violate("C09", "untouched", kind, {"issue": "other_module"}, f"{n}: non-quantized module changed by freeze", p)
        if exc is None and all_frozen:
            # state_dict byte total
            sd = d.model.state_dict()
            total = sum(v.numel() * v.element_size() for v in sd.values() if isinstance(v, torch.Tensor))
            want = 0
            for n, m in d.model.named_modules():
                if list(m.children()):
                    continue
                if any(m is qm for _, qm in mods) and isinstance(m.weight, QTensor):
                    leaves, _ = R.inner_items(m.weight.data if isinstance(m.weight, torch.nn.Parameter) else m.weight)
                    want += sum(x.numel() * x.element_size() for _, x in leaves)
                    for t in (getattr(m, "bias", None), m.input_scale, m.output_scale):
                        if t is not None:
                            want += t.numel() * t.element_size()
                else:
                    want += sum(v.numel() * v.element_size() for v in m.state_dict().values() if isinstance(v, torch.Tensor))
            if total != want:
                w.violate("C09", "geometry", kind, {"issue": "state_dict_bytes"}, f"state_dict holds {total} tensor bytes, payload geometry says {want}", p)
    if c13:
        # freeze() must not modify the float tensors it reads (they are replaced, not written)
        w.judged("C13")
        for n, m in mods:
            i = info[n]
            if not i["was"] and not isinstance(m.weight, QTensor) and m.weight is not None and R.tensor_digest(m.weight) != i["w"]:
                w.violate("C13", "readonly_lib", "freeze", {"issue": "float_weight_modified"}, f"{n}: float weight modified by freeze()", p)
    check_weights_invariant(w, d, kind, p)
    if exc is not None:
        if isinstance(exc, (InjectedFault, InjectedInterrupt)):
            raise exc
        w.violate("C09", "freeze_raises", kind, {"exc": type(exc).__name__, "at": quanto_site(exc)}, repr(exc)[:400], p)
        from .engine_l import WorkloadError

        raise WorkloadError(exc)
    return kind


def do_deepcopy(w, d, op, p):
    from .engine_l import Dep

    try:
        m2 = copy.deepcopy(d.model)
    except Exception as e:
        # "copying it does not change its outputs" presupposes that a quantized model can be copied at all
        wq = str((d.qcfg or {}).get("weights"))
        w.probe("deepcopy_unavailable:" + wq + ":" + d.frozen)
        if d.quantized:
            w.judged("C09")
            low = wq in ("qint2", "qint4")
            w.violate("C09", "copy_raises", "deepcopy", {"wq": "lowbit" if low else "8bit", "frozen": d.frozen != "no", "exc": type(e).__name__}, f"copy.deepcopy of a quantized model (weights {wq}, frozen: {d.frozen}) raised {e!r}"[:600], p)
        return "unavailable"
    n = Dep(op["new"])
    for a in ("arch", "in_shape", "dtype", "init", "wcls", "quantized", "stamp", "frozen", "calibrated", "restarts", "taint"):
        setattr(n, a, getattr(d, a))
    n.qcfg = copy.deepcopy(d.qcfg)
    n.__dict__["expect_rg"] = dict(d.__dict__.get("expect_rg", {}))
    n.memo = dict(d.memo)
    n.oplog = list(d.oplog) + ["deepcopy"]
    n.ema = copy.deepcopy(d.ema)
    n.origin = "copied"
    n.model = m2
    # deepcopy copies the hook dicts: the copies' observers would still write into d -> reinstall
    for _, mod in m2.named_modules():
        mod._forward_hooks.clear()
        mod._forward_pre_hooks.clear()
    if n.quantized:
        install_observers(n)
    w.deps[n.id] = n
    check_weights_invariant(w, n, "deepcopy", p)
    return "ok"


def do_to(w, d, op, p):
    how = op.get("how", "to_cpu")
    if how == "dtype":
        new = op["dtype"]
        q = d.qcfg or {}
        if unsafe_stack_config(d.model, q.get("weights"), q.get("activations"), new):
            w.probe("excluded_to_dtype")
            return "skipped"
        move = lambda: d.model.to(DTYPES[new])
    elif how == "to_cpu":
        move = lambda: d.model.to("cpu")
    elif how == "cpu":
        move = lambda: d.model.cpu()
    else:
        return "skipped"
    for attempt in (0, 1):
        try:
            d.model = move()
            break
        except ValueError:
            # documented refusal: dtype change of packed low-bit weights (the model may be half converted)
            w.probe("to_dtype_refused")
            d.broken = how == "dtype"
            return "refused"
        except RuntimeError as e:
            # torch refuses to swap a wrapper-subclass parameter while something else still references it
            if "swap" not in str(e) or attempt:
                w.probe("move_unavailable")
                d.broken = how == "dtype"
                return "unavailable"
            gc.collect()
    if how == "dtype":
        d.dtype = op["dtype"]
        d.stamp += 1
    else:
        d.oplog.append("to_cpu")
    check_weights_invariant(w, d, how, p)
    return "ok"


# ------------------------------------------------------------------------------------------------
# library calls on caller tensors (C13: read-only on their float inputs)


def do_lib(w, op, p):
    from optimum.quanto import absmax_scale
    from optimum.quanto.tensor import quantize_activation, quantize_weight

    t = archs.gen_payload(op["shape"], DTYPES[op.get("dtype", "float32")], op["seed"], op.get("cls", "noise"), op.get("mag", 1.0))
    view = op.get("view")
    if view == "t" and t.ndim == 2:
        t = t.t()  # non-contiguous
    elif view == "strided":
        base = torch.zeros(tuple(t.shape[:-1]) + (t.shape[-1] * 2,), dtype=t.dtype)
        base[..., ::2] = t
        t = base[..., ::2]
    elif view == "0d":
        t = t.reshape(-1)[0].clone()
    dig = R.input_digest(t)
    qt = QT(op.get("qtype", "qint8"))
    fn = op["fn"]
    try:
        with torch.no_grad():
            if fn == "quantize_weight":
                out = quantize_weight(t, qt, op.get("axis", 0), op.get("group_size"))
            elif fn == "quantize_activation":
                sc = absmax_scale(t, qt)
                if op.get("scale") == "one":
                    sc = torch.ones((), dtype=t.dtype)  # the value scales have before any calibration
                elif op.get("scale") == "fixed":
                    sc = torch.tensor(0.0625, dtype=t.dtype)
                sdig = R.input_digest(sc)
                out = quantize_activation(t, qt, sc)
                if R.input_digest(sc) != sdig:
                    w.violate("C13", "readonly_lib", fn, {"issue": "scale_modified"}, "scale argument modified", p)
            elif fn == "absmax_scale":
                out = absmax_scale(t, qt, op.get("axis"))
            else:
                return "skipped"
    except (InjectedFault, InjectedInterrupt):
        raise
    except Exception as e:
        w.probe("lib_call_rejected:" + type(e).__name__)
        out = None
    w.judged("C13")
    if R.input_digest(t) != dig:
        w.violate("C13", "readonly_lib", fn, {"issue": "input_modified"}, f"{fn} modified its float input", p)
    if out is not None:
        w.log.add("lib", fn, R.tensor_digest(out))
    return "ok"


# ------------------------------------------------------------------------------------------------
# sentinel (C13: behavioural twin of the restoration oracle)


class Sentinel:
    def __init__(self):
        from optimum.quanto import quantize
        from optimum.quanto.tensor import qint8

        self.model = build_model({"k": "seq", "c": [{"k": "lin", "i": 8, "o": 8, "bias": True}, {"k": "relu"}, {"k": "lin", "i": 8, "o": 4, "bias": True}]}, "float32", 4242, "noise")
        quantize(self.model, weights=qint8, activations=qint8)
        self.x = archs.gen_payload((3, 8), torch.float32, 777, "noise", 1.0)
        with torch.no_grad():
            self.y = R.tensor_digest(self.model(self.x))
        self.state = R.state_digest(self.model)


def ensure_sentinel(w):
    if not w.focus("C13"):
        return
    if getattr(w, "sentinel", None) is None and w.depth == 0:
        w.sentinel = Sentinel()


def sentinel_check(w, kind, how, p):
    s = getattr(w, "sentinel", None)
    if s is None or w.depth != 0 or not w.focus("C13"):
        return
    w.judged("C13")
    try:
        with torch.no_grad():
            y = R.tensor_digest(s.model(s.x))
    except Exception as e:
        w.violate("C13", "sentinel", kind, {"issue": "raises", "exit": how}, f"a module run after the block raised {e!r}", p)
        w.sentinel = None
        return
    scales = [float(t) for _, m in qmodules(s.model) for t in (m.input_scale, m.output_scale)]
    if any(v != 1.0 for v in scales) or R.state_digest(s.model) != s.state:
        w.violate("C13", "sentinel", kind, {"issue": "state_changed", "exit": how}, f"a model run outside any context after the block had its scales changed: {scales}", p)
        w.sentinel = None
    elif y != s.y:
        w.violate("C13", "sentinel", kind, {"issue": "output_changed", "exit": how}, "a model run outside any context after the block changed its output", p)
        w.sentinel = None


def do_sentinel(w, op, p):
    ensure_sentinel(w)
    sentinel_check(w, "explicit", "n/a", p)
    return "ok"


# ------------------------------------------------------------------------------------------------
# state_dict / save / load (C10) on the simulated disk


class FailingWriter(io.BytesIO):
    """File object that accepts `limit` bytes and then fails like a full / broken disk."""

    def __init__(self, limit, err):
        super().__init__()
        self.limit = limit
        self.err = err
        self.failed = False

    def write(self, b):
        if self.tell() + len(b) > self.limit:
            self.failed = True
            raise OSError(self.err, os.strerror(self.err))
        return super().write(b)


def sd_check_types(w, sd, opkind, p, keep_vars=False):
    ok = True
    plain = (torch.Tensor, torch.nn.Parameter) if keep_vars else (torch.Tensor,)
    for k, v in sd.items():
        if type(v) not in plain and not isinstance(v, str):
            ok = False
            w.violate("C10", "sd_types", opkind, {"type": type(v).__name__, "key": k.split(".")[-1]}, f"state_dict[{k}] is a {type(v).__name__}", p)
    return ok


def sd_snapshot(sd):
    """Comparable snapshot of a state_dict: key -> ('t', dtype, shape, bytes) | ('s', str)."""
    out = {}
    for k, v in sd.items():
        if isinstance(v, torch.Tensor):
            out[k] = ("t", str(v.dtype), tuple(v.shape), R.tensor_digest(v))
        else:
            out[k] = ("s", str(v))
    return out


def sd_diff(a, b):
    ka, kb = set(a), set(b)
    if ka != kb:
        return f"keys differ: only in first {sorted(ka - kb)[:6]}, only in second {sorted(kb - ka)[:6]}", "keys"
    for k in a:
        if a[k] != b[k]:
            return f"{k}: {a[k][:3]} vs {b[k][:3]}", "value:" + k.split(".")[-1]
    return None, None


def write_sd(w, sd, ser, target):
    from optimum.quanto import safe_save

    if ser == "safetensors":
        safe_save(sd, target)
    else:
        torch.save(sd, target)


def read_sd(rec, weights_only=True):
    from optimum.quanto import safe_load

    if rec["ser"] == "direct":
        return dict(rec["sd_obj"])  # the very tensors model.state_dict() returned, handed over in memory
    if rec["ser"] == "held" and rec.get("sd_obj") is not None:
        return dict(rec["sd_obj"])  # a checkpoint read once and kept by the caller: every load gets the same tensors
    if rec["ser"] == "safetensors":
        return safe_load(rec["path"])
    if rec["ser"] in ("pickle_bytes", "held"):
        return torch.load(io.BytesIO(rec["bytes"]), weights_only=weights_only)
    return torch.load(rec["path"], weights_only=weights_only)


def module_info(model):
    from optimum.quanto.tensor import QTensor

    info = {}
    for n, m in qmodules(model):
        info[n] = {
            "wq": m.weight_qtype.name if m.weight_qtype else None,
            "aq": m.activation_qtype.name if m.activation_qtype else None,
            "frozen": isinstance(m.weight, QTensor),
            "gs": m.weight_group_size,
            "weight": R.tensor_digest(m.weight),
            "in": R.tensor_digest(m.input_scale),
            "out": R.tensor_digest(m.output_scale),
            "bias": R.tensor_digest(getattr(m, "bias", None)),
        }
    return info


def do_state_dict(w, d, op, p):
    sd = d.model.state_dict(keep_vars=bool(op.get("keep_vars")))
    w.judged("C10")
    sd_check_types(w, sd, "state_dict", p, keep_vars=bool(op.get("keep_vars")))
    d.oplog.append("state_dict")
    w.log.add("sd", hexdigest(sorted(sd_snapshot(sd).items())))
    return "ok"


def do_save(w, d, op, p):
    from .core import bump

    ser = op.get("ser", "pickle_bytes")
    try:
        sd = d.model.state_dict()
    except Exception as e:
        w.violate("C10", "state_dict_raises", "save", {"exc": type(e).__name__, "at": quanto_site(e)}, repr(e)[:300], p)
        return "error"
    w.judged("C10")
    sd_check_types(w, sd, "save", p)
    snap = sd_snapshot(sd)
    fd = op.get("fault")
    if fd and fd.get("kind") == "write_fail" and ser != "direct":
        bump(w.res["faults_armed"], "write_fail")
        before = R.state_digest(d.model)
        failed = False
        try:
            if ser == "safetensors":
                write_sd(w, sd, ser, os.path.join(w.scratch_dir(), "no-such-dir", "x.safetensors"))
            else:
                fw = FailingWriter(fd.get("offset", 0), errno.ENOSPC if fd.get("err") != "EIO" else errno.EIO)
                write_sd(w, sd, ser, fw)
        except Exception:
            failed = True
        if failed:
            bump(w.res["faults_fired"], "write_fail")
            w.probe("save_failed_then_retried")
        if R.state_digest(d.model) != before or sd_diff(snap, sd_snapshot(d.model.state_dict()))[0]:
            w.violate("C10", "write_fail_side_effect", "save", {"ser": ser}, "a failed save changed the model's state", p)
    rec = {"ser": ser, "src": d.id}
    try:
        if ser == "direct":
            rec["sd_obj"] = sd
        elif ser in ("pickle_bytes", "held"):
            b = io.BytesIO()
            write_sd(w, sd, ser, b)
            rec["bytes"] = b.getvalue()
        else:
            rec["path"] = os.path.join(w.scratch_dir(), f"f{op['fid']}." + ("safetensors" if ser == "safetensors" else "pt"))
            write_sd(w, sd, ser, rec["path"])
    except Exception as e:
        w.violate("C10", "save_raises", "save", {"ser": ser, "exc": type(e).__name__, "at": quanto_site(e)}, repr(e)[:400], p)
        return "error"
    # (b) load . save is the identity on state_dicts
    for wo in ([True, False] if ser not in ("safetensors", "direct", "held") else [True]):
        try:
            back = read_sd(rec, weights_only=wo)
        except Exception as e:
            w.violate("C10", "serializer_identity", "save", {"ser": ser, "weights_only": wo, "issue": "load_raises:" + type(e).__name__}, repr(e)[:400], p)
            continue
        if not all(type(v) is torch.Tensor or isinstance(v, str) for v in back.values()):
            w.violate("C10", "serializer_identity", "save", {"ser": ser, "weights_only": wo, "issue": "types"}, "loaded state_dict holds other things than tensors and strings", p)
            continue
        det, what = sd_diff(snap, sd_snapshot(back))
        if det:
            w.violate("C10", "serializer_identity", "save", {"ser": ser, "weights_only": wo, "issue": what}, det, p)
    # (d) saving a loaded model again gives an equal state_dict
    if d.src_fid is not None and d.src_fid in w.files and d.stamp == d.src_stamp and not (set(x.split(":")[0] for x in d.oplog[d.src_oplog_len :]) & C09_OPS):
        w.judged("C10")
        det, what = sd_diff(w.files[d.src_fid]["snap"], snap)
        if det:
            src = w.files[d.src_fid]
            w.violate("C10", "resave_equal", "save", {"target": d.origin, "issue": what, "src_frozen": src["frozen"]}, det, p)
        else:
            w.probe("resave_equal_checked")
    if ser == "held":
        rec["sd_obj"] = torch.load(io.BytesIO(rec["bytes"]), weights_only=True)
        w.probe("checkpoint_read_once_and_kept")
    rec.update(
        snap=snap,
        stamp=d.stamp,
        memo=dict(d.memo),
        oplog=list(d.oplog) + ["save"],
        arch=d.arch,
        in_shape=d.in_shape,
        dtype=d.dtype,
        wcls=d.wcls,
        qcfg=copy.deepcopy(d.qcfg),
        info=module_info(d.model),
        frozen=d.frozen,
        ema=copy.deepcopy(d.ema),
        calibrated=d.calibrated,
        quantized=d.quantized,
        restarts=d.restarts,
        taint=d.taint,
    )
    w.files[op["fid"]] = rec
    d.oplog.append("save")
    return "ok:" + ser


def do_load(w, op, p):
    from optimum.quanto import quantize, requantize
    from optimum.quanto.tensor import QTensor

    from .engine_l import Dep

    rec = w.files[op["fid"]]
    if not rec["quantized"] or rec.get("unusable"):
        return "skipped"
    if rec["ser"] == "direct":
        # a dict handed over in memory shares the source model's tensors (torch's definition): once the source was
        # updated in place it no longer is "the state_dict that was saved"
        src = w.deps.get(rec["src"])
        if (src is not None and src.stamp != rec["stamp"]) or sd_diff(rec["snap"], sd_snapshot(rec["sd_obj"]))[0]:
            rec["unusable"] = True
            w.probe("direct_dict_went_stale")
            return "skipped"
    target = op.get("target", "same")
    restart = bool(op.get("restart"))
    if restart:
        src = w.deps.pop(rec["src"], None)
        if src is not None:
            remove_observers(src)
            src.model = None
            del src
        gc.collect()
        w.probe("restart")
    w.judged("C10")
    base_sig = {"target": target, "src_frozen": rec["frozen"], "wq": rec["qcfg"].get("weights"), "aq": rec["qcfg"].get("activations"), "ser": rec["ser"]}
    try:
        sd = read_sd(rec, weights_only=op.get("weights_only", True))
    except Exception as e:
        w.violate("C10", "load_raises", "load", dict(base_sig, exc=type(e).__name__, at="read"), repr(e)[:300], p)
        return "error"
    if op.get("reorder"):
        import random

        keys = list(sd.keys())
        mode = op["reorder"]
        if mode == "reverse":
            keys.reverse()
        elif mode == "strings_first":
            keys.sort(key=lambda k: (isinstance(sd[k], torch.Tensor), k))
        else:
            random.Random(op.get("perm_seed", 0)).shuffle(keys)
        sd = {k: sd[k] for k in keys}
        w.probe("load_reordered")
    # a load must leave every other live model, and every state_dict the caller still holds, as they were
    others_before = {i: R.state_digest(x.model) for i, x in w.deps.items() if x.model is not None and not x.broken and i != op.get("into")}
    held_before = {fid: sd_snapshot(o["sd_obj"]) for fid, o in w.files.items() if o.get("sd_obj") is not None}
    # load_state_dict(assign=True) makes the target share the tensors of the dict by torch's own definition; with
    # a dict handed over in memory those are the source model's tensors, so later writes are shared by design
    assign = bool(op.get("assign")) and rec["ser"] not in ("direct", "held")
    into = w.deps.get(op.get("into")) if op.get("into") is not None else None
    if into is not None and (into.broken or into.model is None or not into.quantized or json.dumps(into.arch, sort_keys=True) != json.dumps(rec["arch"], sort_keys=True)):
        into = None
    q = rec["qcfg"]
    if into is not None:
        # second load into a model that was itself loaded (or quantized) before
        model = into.model
        remove_observers(into)
        w.probe("load_into_existing_target")
        target = "existing"
        base_sig["target"] = target
    elif target == "meta_assign":
        # the low-memory reload flow: the skeleton is created and quantized on the meta device and every tensor is
        # then *assigned* from the state_dict
        with torch.device("meta"):
            model = archs.build(rec["arch"], DTYPES[rec["dtype"]])
        model.eval()
    else:
        model = build_model(rec["arch"], rec["dtype"], op.get("init", 1), rec["wcls"])
    pre_param_ids = {k: id(v) for k, v in model.named_parameters() if type(v.data) is torch.Tensor} if into is not None else {}
    try:
        if into is not None:
            model.load_state_dict(sd, assign=assign)
        elif target == "meta_assign":
            kwargs = {"weights": QT(q.get("weights")), "activations": QT(q.get("activations"))}
            if q.get("filter") is not None:
                kwargs["modules"] = [model.get_submodule(x) for x in q["filter"]]
            quantize(model, **kwargs)
            if rec["ser"] in ("direct", "held"):
                # assigning the source model's own tensors would make the two models one (torch's definition of
                # assign=True): the in-memory dict is copied first, as a caller who wants two models does
                sd = {k: (v.detach().clone() if isinstance(v, torch.Tensor) else copy.deepcopy(v)) for k, v in sd.items()}
            model.load_state_dict(sd, assign=True)
        elif target == "requantize":
            requantize(model, sd)
        else:
            if target == "default":
                quantize(model)
            else:
                kwargs = {"weights": QT(q.get("weights")), "activations": QT(q.get("activations"))}
                if q.get("filter") is not None:
                    kwargs["modules"] = [model.get_submodule(x) for x in q["filter"]]
                quantize(model, **kwargs)
                if op.get("warm") is not None:
                    # the freshly quantized target is tried out once (eval mode, no autograd) before the checkpoint
                    # is loaded into it
                    try:
                        with torch.no_grad():
                            model(archs.gen_payload(tuple(op["warm"].get("lead", [2])) + tuple(rec["in_shape"]), DTYPES[rec["dtype"]], op["warm"]["seed"], "noise", 1.0))
                        w.probe("target_warmed_up_before_load")
                    except Exception:
                        pass
            model.load_state_dict(sd, assign=assign)
    except (InjectedFault, InjectedInterrupt):
        raise
    except Exception as e:
        if into is not None:
            # an incompatible second load (say an un-frozen checkpoint into a frozen model) may be refused: not judged
            into.broken = True
            w.probe("reload_refused:" + type(e).__name__)
            return "refused"
        has_qln = any(m["wq"] is None for m in rec["info"].values())
        w.violate("C10", "load_raises", "load", dict(base_sig, exc=type(e).__name__, at=quanto_site(e), qlayernorm=has_qln), repr(e)[:500], p)
        return "error:" + type(e).__name__
    if into is not None:
        w.deps.pop(into.id, None)
        if not assign:
            # load_state_dict copies into the parameters it finds (torch's contract without assign=True): an optimizer
            # created before a checkpoint is resumed keeps tracking them (C11: its steps must reach the next forward)
            for k, v in model.named_parameters():
                if type(v.data) is torch.Tensor and k in pre_param_ids and id(v) != pre_param_ids[k]:
                    w.judged("C11")
                    w.violate("C11", "freshness", "load", {"issue": "float_parameter_replaced_by_load", "src_frozen": rec["frozen"]}, f"{k}: load_state_dict without assign=True replaced the float Parameter object (an optimizer built earlier no longer reaches it)", p)
                    break
    n = Dep(op["new"] if into is None else into.id)
    if into is not None:
        n.__dict__["expect_rg"] = dict(into.__dict__.get("expect_rg", {}))  # the flags live on the Parameters, which stay
    n.arch, n.in_shape, n.dtype, n.wcls, n.init = rec["arch"], rec["in_shape"], rec["dtype"], rec["wcls"], op.get("init", 1)
    n.model = model
    n.model.eval()
    n.quantized = True
    n.qcfg = copy.deepcopy(q)
    n.stamp = rec["stamp"]
    # the memo survives a save/load only where that is the property in focus (C10); elsewhere the loaded
    # model starts a memo of its own, so that a C10 defect cannot be charged to another property
    n.memo = dict(rec["memo"]) if w.focus("C10") else {}
    n.oplog = (list(rec["oplog"]) + ["load:" + target] + (["restart"] if restart else [])) if w.focus("C10") else []
    n.taint = rec.get("taint")
    n.origin = {"default": "loaded-default", "same": "loaded-same", "requantize": "requantized", "existing": "reloaded", "meta_assign": "loaded-meta-assign"}[target]
    n.frozen = rec["frozen"]
    n.ema = copy.deepcopy(rec["ema"])
    n.calibrated = rec["calibrated"]
    n.restarts = rec["restarts"] + (1 if restart else 0)
    n.src_fid = op["fid"]
    n.src_stamp = rec["stamp"]
    n.src_oplog_len = len(n.oplog)
    if restart and target == "requantize":
        w.probe("restart_then_requantize")
    install_observers(n)
    w.deps[n.id] = n
    if into is not None:
        # the property speaks of freshly quantized targets: a model that is loaded a second time is not judged
        # itself (it starts a lineage of its own); what the load did to *others* is
        n.memo, n.oplog, n.src_fid = {}, [], None
        n.stamp += 1000
        n.dtype = into.dtype
        side_effects(w, n, op, others_before, held_before, base_sig, p)
        check_weights_invariant(w, n, "load:existing", p)  # C06: whatever deserialization returns is consistent
        if into.dtype != rec["dtype"]:
            n.broken = True  # a model of two dtypes: nothing further is asked of it
            return "ok:existing-mixed-dtypes"
        return "ok:existing"
    # (c) the loaded model holds what was saved
    try:
        snap2 = sd_snapshot(model.state_dict())
    except Exception as e:
        w.violate("C10", "load_equal", "load", dict(base_sig, issue="state_dict_raises"), repr(e)[:300], p)
        n.broken = True
        return "error"
    det, what = sd_diff(rec["snap"], snap2)
    if det:
        w.violate("C10", "load_equal", "load", dict(base_sig, issue="state_dict:" + what), det, p)
    info2 = module_info(model)
    for name, a in rec["info"].items():
        b = info2.get(name)
        if b is None:
            w.violate("C10", "load_equal", "load", dict(base_sig, issue="module_not_quantized"), f"{name} is not a quantized module in the target", p)
            continue
        for fld in ("wq", "aq", "frozen", "weight", "in", "out", "bias", "gs"):
            if fld == "gs" and a["frozen"]:
                continue  # a frozen weight carries its own group size
            if fld == "gs" and a[fld] != b[fld]:
                n.taint = "group_size_lost"  # known defect: names the cause in later output mismatches
            if a[fld] != b[fld]:
                w.violate("C10", "load_equal", "load", dict(base_sig, issue="field:" + fld), f"{name}.{fld}: saved {a[fld]} loaded {b[fld]}", p)
    for name, t in list(model.named_parameters()) + list(model.named_buffers()):
        if t.device.type != "cpu":
            w.violate("C10", "load_equal", "load", dict(base_sig, issue="device"), f"{name} on {t.device}", p)
    check_weights_invariant(w, n, "load:" + target, p)
    side_effects(w, n, op, others_before, held_before, base_sig, p)
    return "ok:" + target


def side_effects(w, n, op, others_before, held_before, base_sig, p):
    for i, dg in others_before.items():
        x = w.deps.get(i)
        if x is not None and x.model is not None and R.state_digest(x.model) != dg:
            w.violate("C10", "load_side_effect", "load", dict(base_sig, who="other_model"), f"loading into dep {n.id} changed the state of dep {i}", p)
            x.broken = True
    for fid, other in w.files.items():
        if other.get("src") == n.id:
            continue  # a dict taken from the target itself shares the target's own tensors, by torch's definition
        if other.get("sd_obj") is not None and fid in held_before and sd_diff(held_before[fid], sd_snapshot(other["sd_obj"]))[0]:
            w.violate("C10", "load_side_effect", "load", dict(base_sig, who="held_state_dict"), f"loading file {op['fid']} changed the tensors of state_dict {fid} still held by the caller", p)
            other["sd_obj"] = None
            other["unusable"] = True


# ------------------------------------------------------------------------------------------------
# training steps and weight updates (C11)


def _local_reference_grads(mod, rec, wdt, absolute=False):
    """Float64 straight-through reference of one module: gradients w.r.t. input, weight, bias for the
    upstream gradient that actually reached the module's output. With absolute=True the same graph
    is evaluated on |x|, |W|, |G| (the conv/linear maps are bilinear with these positive entries), which
    yields the magnitudes that scale the rounding bounds."""
    kind = R.module_kind(mod)
    aq = rec.aq
    with torch.no_grad():
        x64 = R.effective_input64(mod, rec.input, aq, rec.in_scale)
        w64 = R.dq64(direct_qweight(mod))
        b64 = None if mod.bias is None else mod.bias.detach().to(torch.float64)
        g = rec.g_out
        g64 = (g.dequantize() if R.is_q(g) else g).detach().to(torch.float64)
    if absolute:
        x64, w64, g64 = x64.abs(), w64.abs(), g64.abs()
        b64 = None if b64 is None else b64.abs()
    x64 = x64.clone().requires_grad_(True)
    w64 = w64.clone().requires_grad_(True)
    if b64 is not None:
        b64 = b64.clone().requires_grad_(True)
    with torch.enable_grad():
        if kind == "linear":
            y = F.linear(x64, w64, b64)
        else:
            y = R._conv64(mod, x64, w64, b64)
        if tuple(y.shape) != tuple(g64.shape):
            return None
        y.backward(g64)
    return x64.grad, w64.grad, None if b64 is None else b64.grad


def check_grads(w, d, recs, p):
    """Gradient oracle for one module over all its calls of this training step (several calls = gradient
    accumulation: the parameter gradients are the sums over the calls, the input gradients stay per call)."""
    from optimum.quanto.tensor import QTensor

    rec = recs[0]
    mod = rec.mod
    kind = R.module_kind(mod)
    if kind not in ("linear", "conv") or any(r.g_out is None for r in recs):
        return
    wdt = DTYPES[d.dtype]
    frozen = isinstance(mod.weight, QTensor)
    base = {"kind": kind, "wq": mod.weight_qtype.name if mod.weight_qtype else None, "aq": rec.aq.name if rec.aq else None, "dtype": d.dtype, "frozen": frozen, "in_rank": rec.input.ndim}
    if len(recs) > 1:
        base["calls"] = len(recs)
        w.probe("gradient_accumulated_over_calls")
    refs, mags = [], []
    try:
        for r in recs:
            refs.append(_local_reference_grads(mod, r, wdt))
            mags.append(_local_reference_grads(mod, r, wdt, absolute=True))
    except Exception:
        w.probe("grad_reference_not_evaluable")
        return
    if any(x is None for x in refs + mags):
        w.probe("grad_reference_shape_mismatch")
        return
    w.judged("C11")
    u, u32 = R.eps_of(wdt), R.eps_of(torch.float32)
    rows = sum(max(1, r.g_out.numel() // max(1, r.g_out.shape[-1] if kind == "linear" else r.g_out.shape[1])) for r in recs)
    ks = {"input": mod.weight.shape[0] * (1 if kind == "linear" else mod.weight[0, 0].numel()), "weight": rows, "bias": rows}

    def cmp(which, got, want, M):
        if got is None:
            w.violate("C11", "grads", "train", dict(base, which=which, issue="missing"), f"{rec.name}: no gradient reached {which}", p)
            return
        got = got.dequantize() if R.is_q(got) else got
        if tuple(got.shape) != tuple(want.shape):
            w.violate("C11", "grads", "train", dict(base, which=which, issue="shape"), f"{rec.name}: {which} gradient shape {tuple(got.shape)} reference {tuple(want.shape)}", p)
            return
        g64 = got.detach().to(torch.float64)
        bound = R.C_ROUND * u * M + 2.0 * ks[which] * u32 * M + float(torch.finfo(wdt).tiny)
        fmax = float(torch.finfo(wdt).max)
        # partial sums of a half precision kernel may overflow where the sum of magnitudes does: not judged
        mask = torch.isfinite(want) & ((want.abs() + bound) < fmax) & (M < 0.5 * fmax)
        bad = mask & ~((g64 - want).abs() <= bound)
        if bool(bad.any()):
            i = int(torch.nonzero(bad.reshape(-1))[0])
            w.violate("C11", "grads", "train", dict(base, which=which, issue="value"), f"{rec.name}: {which} gradient: {int(bad.sum())}/{bad.numel()} off; idx {i}: got {g64.reshape(-1)[i].item()} ref {want.reshape(-1)[i].item()} bound {bound.reshape(-1)[i].item()}", p)

    for r, ref, mag in zip(recs, refs, mags):
        if r.g_in_local:
            cmp("input", r.g_in, ref[0], mag[0])
    if frozen:
        if mod.weight.grad is not None:
            w.violate("C11", "nograd", "train", dict(base, which="frozen_weight"), f"{rec.name}: frozen weight received a gradient", p)
    else:
        # what the caller made trainable (on the quantized module, or on the float one before quantize()) is
        # trainable; everything is by default
        want_w, want_b = d.__dict__.get("expect_rg", {}).get(rec.name, (True, True))
        if want_w:
            cmp("weight", mod.weight.grad, sum(x[1] for x in refs), sum(x[1] for x in mags))
        else:
            base["weight_trainable"] = False
    if mod.bias is not None and d.__dict__.get("expect_rg", {}).get(rec.name, (True, True))[1]:
        cmp("bias", mod.bias.grad, sum(x[2] for x in refs), sum(x[2] for x in mags))
    for sn in ("input_scale", "output_scale"):
        sc = getattr(mod, sn)
        if sc.grad is not None:
            w.violate("C11", "nograd", "train", dict(base, which=sn), f"{rec.name}: {sn} received a gradient", p)


def do_train(w, d, op, p):
    """One training step: forward with a leaf input that requires grad, backward with a planned
    upstream gradient, per-module gradient oracle, optional SGD update."""
    from .engine_l import WorkloadError

    if not d.quantized:
        return "skipped"
    x = make_input(d, op["input"])
    if R.is_q(x):
        return "skipped"
    if op.get("cl") and x.ndim == 4:
        # an image batch in channels-last memory format: the convolution backward then hands channels-last gradients
        x = x.contiguous(memory_format=torch.channels_last)
        w.probe("channels_last_training_batch")
    x = x.clone().requires_grad_(True)
    for prm in d.model.parameters():
        prm.grad = None
    counts = {}
    d.obs, d.open = [], []
    d.train_mode = True
    exc = None
    out = None
    detached = False
    try:
        # no grad-mode block of the harness' own: training runs in the process' ambient grad mode, as a caller's does
        # (a block would put back whatever an earlier call had left switched off)
        with contextlib.nullcontext():
            outs, grads = [], []
            xs = [x]
            if op.get("input2"):
                # gradient accumulation: two forwards share one backward
                x2 = make_input(d, op["input2"])
                if not R.is_q(x2):
                    xs.append(x2.clone().requires_grad_(True))
            for j, xi in enumerate(xs):
                out = d.model(xi)
                if op.get("peek"):
                    # the caller looks at the output without autograd first (accuracy, logging), then builds the loss
                    with torch.no_grad():
                        _ = (out.dequantize() if R.is_q(out) else out).sum()
                        _ = out.argmax() if out.numel() else None
                    w.probe("output_read_under_no_grad_before_loss")
                o = out.dequantize() if R.is_q(out) else out
                if not o.requires_grad and any(prm.requires_grad for prm in d.model.parameters()):
                    detached = True
                G = archs.gen_payload(tuple(o.shape), o.dtype, op.get("gseed", 1) + j, "noise", op.get("gmag", 1.0))
                if op.get("noncontig") and G.ndim >= 2:
                    G = G.transpose(-1, -2).contiguous().transpose(-1, -2)
                form = op.get("loss")
                if form:
                    # a scalar loss instead of an explicit upstream gradient: autograd then hands the module an
                    # expanded (stride 0) gradient, a zero one, or one that depends on the output itself
                    o32 = o.to(torch.float32)
                    o = {"sum": lambda: o32.sum(), "mean": lambda: o32.mean(), "twice": lambda: o32.sum() + 0.5 * (o32 * o32).sum(), "zero": lambda: o32.sum() * 0.0, "last": lambda: o32[..., -1:].sum()}[form]()
                    G = torch.ones((), dtype=o.dtype)
                    w.probe("scalar_loss:" + form)
                outs.append(o)
                grads.append(G)
            torch.autograd.backward(outs, grads)
    except (InjectedFault, InjectedInterrupt):
        raise
    except Exception as e:
        exc = e
    finally:
        d.train_mode = False
    if w.depth > 0:
        d.stamp += 1
    recs = list(d.obs)
    d.obs, d.open = [], []
    if detached and w.focus("C11"):
        w.judged("C11")
        w.violate("C11", "grads", "train", {"issue": "output_detached", "peek": bool(op.get("peek"))}, "the model's (dequantized) output does not require grad although its input and parameters do: no gradient can reach them", p)
    if exc is not None:
        # a backward (or forward) that raises where the float module's runs
        site = quanto_site(exc)
        in_backward = any(fs.name == "backward" for fs in traceback.extract_tb(exc.__traceback__))
        w.judged("C11")
        wdt = DTYPES[d.dtype]
        dtypes_ok = all(m.input_scale.dtype == wdt and m.output_scale.dtype == wdt for _, m in qmodules(d.model) if m.activation_qtype is not None)
        if not dtypes_ok:
            # scales of another dtype than the module (never calibrated in this dtype): the float program mixes dtypes too
            w.probe("train_error_with_foreign_scale_dtype")
        elif in_backward or "backward" in site:
            w.violate("C11", "backward_raises", "train", {"exc": type(exc).__name__, "at": site, "noncontig": bool(op.get("noncontig")), "in_rank": x.ndim}, repr(exc)[:500], p)
        w.probe("train_error:" + type(exc).__name__)
        w.log.add("train-error", type(exc).__name__, site, str(exc)[:160])
        raise WorkloadError(exc)
    for r in recs:
        counts[r.name] = counts.get(r.name, 0) + 1
    if w.focus("C11"):
        by_mod = {}
        for r in recs:
            by_mod.setdefault(r.name, []).append(r)
        for name, rs in by_mod.items():
            check_grads(w, d, rs, p)
    if w.focus("C08"):
        for r in recs:
            check_twin(w, d, r, p, "train")
    if w.focus("C11"):
        for r in recs:
            check_twin(w, d, r, p, "train", prop="C11")
    lr = op.get("lr")
    if lr:
        with torch.no_grad():
            n = 0
            for prm in d.model.parameters():
                if prm.grad is not None and not R.is_q(prm):
                    prm.add_(prm.grad, alpha=-lr)
                    n += 1
        if n:
            d.stamp += 1
            freshness_check(w, d, "sgd", p)
    w.log.add("trained", R.tensor_digest(out), [R.tensor_digest(prm.grad) for prm in d.model.parameters()])
    return "ok"


def freshness_check(w, d, how, p):
    """C11: until frozen, the quantized weight used by the next forward is the one of the current float weight."""
    from optimum.quanto.tensor import QTensor

    if not w.focus("C11"):
        return
    for n, m in qmodules(d.model):
        if m.weight_qtype is None or isinstance(m.weight, QTensor):
            continue
        w.judged("C11")
        with torch.no_grad():
            got = m.qweight
            want = direct_qweight(m)
        if R.tensor_digest(got) != R.tensor_digest(want):
            w.violate("C11", "freshness", "wupdate", {"how": how, "wq": m.weight_qtype.name}, f"{n}: qweight after a weight update is not the quantization of the current float weight", p)


def do_wupdate(w, d, op, p):
    from optimum.quanto.tensor import QTensor

    if not d.quantized:
        return "skipped"
    how = op.get("how", "add_")
    n = 0
    with torch.no_grad():
        for name, m in qmodules(d.model):
            if isinstance(m.weight, QTensor) or m.weight is None:
                continue
            delta = archs.gen_payload(m.weight.shape, m.weight.dtype, H(op.get("seed", 0), name), "noise", op.get("mag", 0.5) * float(m.weight.abs().max() + 1e-3))
            before = R.tensor_digest(direct_qweight(m)) if m.weight_qtype is not None else None
            if how == "add_":
                m.weight.data.add_(delta)
            elif how == "copy_":
                m.weight.data.copy_(delta)
            else:
                m.weight.add_(delta)
            n += 1
            if before is not None and R.tensor_digest(direct_qweight(m)) != before:
                w.probe("update_changed_codes")
    if not n:
        return "skipped"
    d.stamp += 1
    freshness_check(w, d, how, p)
    return "ok"


def do_refill_forward(w, d, op, p):
    """The caller refills the batch tensor it used before, in place and behind the back of torch's version
    counter (`x.data.copy_`, a staging buffer shared with numpy), and evaluates it again: the result must be the
    one a fresh tensor with the same contents gives (C13: evaluation depends on the input's values only)."""
    from .engine_l import WorkloadError

    if w.depth > 0 or not d.quantized:
        return "skipped"
    cache = w.__dict__.setdefault("input_cache", {})
    ck1 = (input_key(op["input"]), tuple(d.in_shape), d.dtype)
    x = cache.get(ck1)
    if x is None or R.is_q(x):
        return "skipped"
    new = make_input(d, op["input2"])
    if R.is_q(new) or tuple(new.shape) != tuple(x.shape) or new.dtype != x.dtype:
        return "skipped"
    x.data.copy_(new)
    cache.pop(ck1, None)
    key2 = input_key(op["input2"])
    cache[(key2, tuple(d.in_shape), d.dtype)] = x
    d.obs, d.open = [], []
    try:
        with torch.no_grad():
            out1 = d.model(x)
            out2 = d.model(x.clone())
    except (InjectedFault, InjectedInterrupt):
        raise
    except Exception as e:
        d.obs, d.open = [], []
        w.probe("workload_error:" + type(e).__name__)
        raise WorkloadError(e)
    d.obs, d.open = [], []
    w.judged("C13")
    w.probe("batch_object_refilled_in_place")
    if R.tensor_digest(out1) != R.tensor_digest(out2):
        q = d.qcfg or {}
        w.violate("C13", "repeat", "refill_forward", {"wq": q.get("weights"), "aq": q.get("activations"), "how": "batch_object_refilled_in_place"}, "a batch tensor refilled in place evaluates differently from a fresh tensor holding the same values", p)
    memo_check(w, d, key2, out2, p, "refill_forward")
    return "ok"


def do_set_trainable(w, d, op, p):
    """Bias-only (or weight-only) fine-tuning: the caller switches requires_grad of the float parameters of the
    un-frozen quantized modules - or of the float modules before quantize(), which must hand the flags on.
    Gradients of what stays trainable must be unaffected (C11)."""
    from optimum.quanto.tensor import QTensor

    exp = d.__dict__.setdefault("expect_rg", {})
    n = 0
    if d.quantized:
        mods = qmodules(d.model)
    else:
        mods = [(name, m) for name, m in d.model.named_modules() if isinstance(m, (torch.nn.Linear, torch.nn.Conv2d))]
    for name, m in mods:
        if m.weight is None or isinstance(m.weight, QTensor):
            continue
        m.weight.requires_grad_(bool(op.get("weights", True)))
        if getattr(m, "bias", None) is not None:
            m.bias.requires_grad_(bool(op.get("biases", True)))
        exp[name] = (bool(op.get("weights", True)), bool(op.get("biases", True)))
        n += 1
    if n:
        w.probe("requires_grad_switched:" + ("w" if op.get("weights", True) else "-") + ("b" if op.get("biases", True) else "-") + ("" if d.quantized else ":before_quantize"))
    return "ok" if n else "skipped"


def do_bad_call(w, d, op, p):
    """A call the library refuses (documented ValueError) or that fails in torch (wrong input width), made by a caller
    who catches the error and carries on. Nothing is wrapped around the call - no grad-mode block, no injector - so
    that whatever the failing call leaves behind in the process stays there for the operations that follow."""
    from optimum.quanto import MaxOptimizer, qint4, qint8
    from optimum.quanto.tensor import quantize_activation, quantize_weight

    kind = op["kind"]
    before = R.ambient_snapshot()
    sdig = None
    exc = None
    try:
        if kind == "group":
            t = archs.gen_payload((16, 64), torch.float32, op.get("seed", 1), "noise", 1.0)
            quantize_weight(t, qint4, 0, 48)  # 48 does not divide 64
        elif kind == "optimizer":
            t = archs.gen_payload((8, 32), torch.float32, op.get("seed", 1), "noise", 1.0)
            quantize_weight(t, qint8, 0, None, MaxOptimizer())  # an affine optimizer for a symmetric qtype
        elif kind == "scale":
            t = archs.gen_payload((4, 8), torch.float32, op.get("seed", 1), "noise", 1.0)
            quantize_activation(t, qint8, torch.ones(4, 1))  # activations take a scalar scale
        elif kind == "shape":
            if d is None or d.model is None or d.broken or w.depth > 0:
                return "skipped"
            sdig = R.state_digest(d.model)
            x = archs.gen_payload((2,) + tuple(int(n) + 3 for n in d.in_shape), DTYPES[d.dtype], op.get("seed", 1), "noise", 1.0)
            remove_observers(d)
            try:
                d.model(x)
            finally:
                install_observers(d)
        else:
            return "skipped"
    except (InjectedFault, InjectedInterrupt):
        raise
    except Exception as e:
        exc = e
    w.probe("refused_call:" + kind + (":raised" if exc is not None else ":accepted"))
    w.judged("C13")
    diff = R.ambient_diff(before, R.ambient_snapshot())
    if diff:
        w.violate("C13", "restoration", "bad_call", {"tables": ",".join(sorted(diff)), "kind": kind}, f"process-wide state differs after a call that raised {type(exc).__name__ if exc is not None else 'nothing'}: {diff}", p)
        if w.focus("C13"):
            w.restore_ambient(before)
            torch.set_grad_enabled(before["grad_enabled"])
    if sdig is not None and R.state_digest(d.model) != sdig:
        w.violate("C13", "readonly_forward", "bad_call", {"issue": "state_changed", "kind": kind}, "a forward that failed outside any context changed the model's state", p)
    return "raised:" + type(exc).__name__ if exc is not None else "accepted"


def do_set_mode(w, d, op, p):
    """The caller leaves part of the tree in the other mode (the usual fine-tuning set-up: norm / dropout layers in
    eval(), the rest in train()). Only flags of modules whose behaviour does not depend on them are switched, one
    module at a time, so that the runs stay deterministic; quantize() must leave them alone."""
    n = 0
    for name, m in d.model.named_modules():
        if not name or isinstance(m, torch.nn.Dropout) or hasattr(m, "qforward"):
            continue
        if H(op.get("seed", 0), "mode", name) % 100 < int(100 * op.get("frac", 0.5)):
            m.training = bool(op.get("train", True))
            n += 1
    if n:
        w.probe("mixed_train_eval_flags")
    return "ok" if n else "skipped"
