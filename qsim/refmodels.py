"""Reference models and observation helpers shared by the engines.

Small, executable, and independent of the code under test wherever the property
is about that code (twin, EMA, codec); digests and snapshots are pure observers.
"""
import hashlib
import math

import torch

F = torch.nn.functional

# ------------------------------------------------------------------------------------------------
# bytes / digests


def tbytes(t: torch.Tensor) -> bytes:
    """Raw bytes of a plain tensor's values in logical order (NaNs keep their payload)."""
    t = t.detach()
    if t.device.type != "cpu":
        t = t.cpu()
    t = t.contiguous()
    if t.numel() == 0:
        return b""
    flat = t.reshape(-1)
    if flat.stride(0) != 1:  # a one-element tensor keeps whatever stride it had and still counts as contiguous
        flat = flat.clone(memory_format=torch.contiguous_format)
    return flat.view(torch.uint8).numpy().tobytes()


def is_q(t):
    from optimum.quanto.tensor import QTensor

    return isinstance(t, QTensor)


def inner_items(t):
    """(name, leaf plain tensor) pairs and meta of a quantized tensor, recursively."""
    leaves, meta = [], {}

    def rec(x, prefix):
        names, m = x.__tensor_flatten__()
        for k, v in m.items():
            meta[prefix + k] = str(v)
        for n in names:
            inner = getattr(x, n)
            if type(inner) is torch.Tensor:
                leaves.append((prefix + n, inner))
            else:
                rec(inner, prefix + n + ".")

    rec(t, "")
    return leaves, meta


def tensor_digest(t) -> str:
    """Digest of any tensor: plain (dtype, shape, bytes) or quantized (class, meta, leaves)."""
    h = hashlib.sha256()
    if t is None:
        return "none"
    if type(t) is not torch.Tensor and type(t) is not torch.nn.Parameter and hasattr(t, "__tensor_flatten__"):
        # a wrapper subclass (also when it is flagged as a Parameter)
        leaves, meta = inner_items(t)
        h.update(type(t).__name__.encode())
        h.update(repr(sorted(meta.items())).encode())
        h.update(repr((tuple(t.shape), str(t.dtype))).encode())
        for n, x in leaves:
            h.update(n.encode())
            h.update(repr((str(x.dtype), tuple(x.shape))).encode())
            h.update(tbytes(x))
    else:
        h.update(repr((str(t.dtype), tuple(t.shape))).encode())
        h.update(tbytes(t))
    return h.hexdigest()[:16]


def state_digest(model) -> str:
    """Digest over state_dict() and the quantization attributes of every module."""
    from optimum.quanto.nn import QModuleMixin

    h = hashlib.sha256()
    sd = model.state_dict()
    for k in sd:
        v = sd[k]
        h.update(k.encode())
        if isinstance(v, torch.Tensor):
            h.update(tensor_digest(v).encode())
        else:
            h.update(repr(v).encode())
    for name, m in model.named_modules():
        rec = [name, type(m).__name__, m.training]
        if isinstance(m, QModuleMixin):
            rec += [
                str(m.weight_qtype),
                str(m.activation_qtype),
                m.weight_group_size,
                m.frozen,
                type(m.optimizer).__name__,
            ]
        for pn, p in m.named_parameters(recurse=False):
            rec += [pn, p.requires_grad, p.grad is None]
        h.update(repr(rec).encode())
    return h.hexdigest()[:16]


def input_digest(x) -> str:
    if is_q(x):
        return tensor_digest(x)
    base = x
    try:
        st = x.untyped_storage()
        raw = bytes(st) if st.nbytes() <= 1 << 20 else b""
    except Exception:
        raw = b""
    return hashlib.sha256(raw + tensor_digest(base).encode() + repr((x.stride(), x.storage_offset(), x.requires_grad)).encode()).hexdigest()[:16]


# ------------------------------------------------------------------------------------------------
# ambient (process-global) state


def ambient_snapshot():
    """Process-global state that Calibration / disable_extensions may touch, compared by identity."""
    import torch.nn.modules.module as M
    from optimum.quanto.library import ops as qops

    snap = {}
    for name in (
        "_global_forward_hooks",
        "_global_forward_pre_hooks",
        "_global_forward_hooks_always_called",
        "_global_forward_hooks_with_kwargs",
        "_global_backward_hooks",
        "_global_backward_pre_hooks",
        "_global_buffer_registration_hooks",
        "_global_module_registration_hooks",
        "_global_parameter_registration_hooks",
    ):
        d = getattr(M, name, None)
        if d is not None:
            snap[name] = [(k, id(v)) for k, v in d.items()]
    snap["function_mode_stack"] = [id(m) for m in torch.overrides._get_current_function_mode_stack()]
    try:
        from torch.utils._python_dispatch import _get_current_dispatch_mode_stack

        snap["dispatch_mode_stack"] = [id(m) for m in _get_current_dispatch_mode_stack()]
    except Exception:
        pass
    snap["torch_function_state"] = str(torch._C._get_torch_function_state()) if hasattr(torch._C, "_get_torch_function_state") else str(torch._C._is_torch_function_enabled())
    snap["_ext_enabled"] = qops._ext_enabled
    snap["grad_enabled"] = torch.is_grad_enabled()
    snap["default_dtype"] = str(torch.get_default_dtype())
    snap["inference_mode"] = torch.is_inference_mode_enabled()
    return snap


def ambient_diff(a, b):
    """Names of entries that differ, with a compact description."""
    out = {}
    for k in sorted(set(a) | set(b)):
        if a.get(k) != b.get(k):
            va, vb = a.get(k), b.get(k)
            if isinstance(va, list) and isinstance(vb, list):
                out[k] = f"{len(va)}->{len(vb)}"
            else:
                out[k] = f"{va}->{vb}"
    return out


def ambient_reset():
    """Force the process-global state back to pristine (between runs). Returns what had to be cleaned."""
    import torch.nn.modules.module as M
    from optimum.quanto.library import ops as qops

    cleaned = []
    for name in (
        "_global_forward_hooks",
        "_global_forward_pre_hooks",
        "_global_forward_hooks_always_called",
        "_global_forward_hooks_with_kwargs",
        "_global_backward_hooks",
        "_global_backward_pre_hooks",
    ):
        d = getattr(M, name, None)
        if d is not None and len(d):
            cleaned.append(name)
            d.clear()
    # function modes
    from torch.overrides import _pop_mode, _get_current_function_mode_stack

    n = len(_get_current_function_mode_stack())
    for _ in range(n):
        _pop_mode()
        cleaned.append("function_mode")
    if not qops._ext_enabled:
        qops._ext_enabled = True
        cleaned.append("_ext_enabled")
    if hasattr(torch._C, "_set_torch_function_state") and not torch._C._is_torch_function_enabled():
        torch._C._set_torch_function_state(torch._C._TorchFunctionState.ENABLED)
        cleaned.append("torch_function_state")
    if not torch.is_grad_enabled():
        torch.set_grad_enabled(True)
        cleaned.append("grad")
    return cleaned


# ------------------------------------------------------------------------------------------------
# ref-quant: 8-bit symmetric (de)quantization from the README definition


def qrange(qtype):
    dt = qtype.dtype
    info = torch.finfo(dt) if dt.is_floating_point else torch.iinfo(dt)
    return float(info.min), float(info.max)


def eps_of(dtype):
    return torch.finfo(dtype).eps


def f8_round(v64: torch.Tensor, f8dtype) -> torch.Tensor:
    """Round float64 values to the nearest float8 value (saturating), returned as float64.
    float32 is an exact superset of both float8 types and float64->float32 is exact for the
    code magnitudes met here up to one double rounding, absorbed by callers' margins."""
    lo, hi = torch.finfo(f8dtype).min, torch.finfo(f8dtype).max
    return torch.clamp(v64, lo, hi).to(torch.float32).to(f8dtype).to(torch.float64)


def code_interval(y64, bound64, scale, qtype, udtype):
    """Interval [lo, hi] (float64, in code units) of admissible codes for values known as
    y64 +- bound64, quantized with `scale` into `qtype`, allowing for the rounding of the
    division in working dtype `udtype`."""
    s = float(scale)
    u = eps_of(udtype)
    qmin, qmax = qrange(qtype)
    a = (y64 - bound64) / s
    b = (y64 + bound64) / s
    slack_a = 4 * u * a.abs() + 1e-30
    slack_b = 4 * u * b.abs() + 1e-30
    a = a - slack_a
    b = b + slack_b
    if qtype.is_floating_point:
        lo = f8_round(a, qtype.dtype)
        hi = f8_round(b, qtype.dtype)
    else:
        # round-half-even; any tie may go either way under a perturbed division
        lo = torch.clamp(torch.ceil(a - 0.5), qmin, qmax)
        hi = torch.clamp(torch.floor(b + 0.5), qmin, qmax)
    return lo, hi


# ------------------------------------------------------------------------------------------------
# twin: float64 evaluation of a quantized module on what it actually received


def dq64(t):
    """Dequantized float64 value of a tensor (quantized or plain)."""
    if is_q(t):
        t = t.dequantize()
    return t.detach().to(torch.float64)


def _conv_args(m):
    return dict(stride=m.stride, dilation=m.dilation, groups=m.groups)


def _conv64(m, x64, w64, b64):
    if m.padding_mode != "zeros":
        x64 = F.pad(x64, m._reversed_padding_repeated_twice, mode=m.padding_mode)
        return F.conv2d(x64, w64, b64, padding=0, **_conv_args(m))
    return F.conv2d(x64, w64, b64, padding=m.padding, **_conv_args(m))


def twin_raw(module, x_eff64, w64, b64):
    """Float64 output of the float original of `module` on x_eff64 with weight w64.

    Returns (y64, M64, k, cond64): M = |x|.|W| + |b| per output element scales the rounding bound,
    k is the contraction length, cond (LayerNorm only) the conditioning of the normalisation."""
    kind = module_kind(module)
    cond = None
    if kind == "linear":
        y = F.linear(x_eff64, w64, b64)
        M = F.linear(x_eff64.abs(), w64.abs(), None if b64 is None else b64.abs())
        k = w64.shape[1]
    elif kind == "conv":
        y = _conv64(module, x_eff64, w64, b64)
        M = _conv64(module, x_eff64.abs(), w64.abs(), None if b64 is None else b64.abs())
        k = w64[0].numel()
    elif kind == "ln":
        ns = tuple(module.normalized_shape)
        y = F.layer_norm(x_eff64, ns, w64, b64, module.eps)
        dims = tuple(range(x_eff64.ndim - len(ns), x_eff64.ndim))
        mean = x_eff64.mean(dims, keepdim=True)
        var = x_eff64.var(dims, unbiased=False, keepdim=True)
        sigma = torch.sqrt(var + module.eps)
        n = (x_eff64 - mean) / sigma
        wabs = torch.ones_like(n) if w64 is None else w64.abs().expand_as(n)
        M = n.abs() * wabs + (0 if b64 is None else b64.abs())
        # errors of relative size u on x move the normalised value by u*max|x|/sigma
        cond = ((x_eff64.abs().amax(dims, keepdim=True) + mean.abs()) / sigma).expand_as(n) * wabs
        k = int(math.prod(ns))
    else:
        raise ValueError(kind)
    return y, M, k, cond


def module_kind(m):
    if isinstance(m, torch.nn.Linear):
        return "linear"
    if isinstance(m, torch.nn.Conv2d):
        return "conv"
    if isinstance(m, torch.nn.LayerNorm):
        return "ln"
    return "other"


C_ROUND = 24.0  # number of working-dtype roundings per output element tolerated (see DESIGN 3.4)


def raw_bound(M64, k, cond64, work_dtype):
    """Per-element absolute error bound of the raw (pre-output-quantization) result: C_ROUND roundings
    of the working dtype on the magnitude M, float32 accumulation over k terms, and for LayerNorm
    the float32-internal conditioning term."""
    u = eps_of(work_dtype)
    u32 = eps_of(torch.float32)
    b = C_ROUND * u * M64 + 2.0 * k * u32 * M64
    if cond64 is not None:
        b = b + 64.0 * u32 * cond64
    return b + float(torch.finfo(work_dtype).tiny)


def effective_input64(module, x, act_qtype, input_scale):
    """The (de)quantized input the float original is evaluated on, as float64.

    Follows QModuleMixin.forward's contract: a quantized incoming tensor is kept when it already has
    the module's activation qtype and a scalar scale, else re-quantized with the input scale; a float
    incoming tensor is quantized with the input scale by Linear/Conv2d when activations are on
    (LayerNorm consumes floats as they are). Quantization itself is quanto's (C01 is not judged here)."""
    from optimum.quanto.tensor import QBytesTensor, quantize_activation

    kind = module_kind(module)
    with torch.no_grad():
        if act_qtype is None:
            return dq64(x)
        if isinstance(x, QBytesTensor):
            if x.qtype == act_qtype and x.axis is None:
                return dq64(x)
            return dq64(quantize_activation(x.dequantize().detach(), qtype=act_qtype, scale=input_scale))
        if kind in ("linear", "conv"):
            return dq64(quantize_activation(x.detach(), qtype=act_qtype, scale=input_scale))
        return dq64(x)


# ------------------------------------------------------------------------------------------------
# C06: metadata invariant I(q)


def expected_scale_shape(shape, axis, group_size=None, numel=None):
    """The scale shape quanto's own quantizers produce (used for grouped tensors, where the scale
    lives in the grouped 2-D layout; for ungrouped ones see `scale_broadcasts`)."""
    nd = len(shape)
    if axis is None:
        return None
    if group_size is None:
        if axis == 0:
            return (shape[0],) + (1,) * (nd - 1)
        return (1,) * (nd - 1) + (shape[-1],)
    n = 1
    for s in shape:
        n *= s
    if axis == 0:
        return (n // group_size, 1)
    return (1, n // group_size)


def scale_broadcasts(shape, axis, sshape):
    """C06's wording: the scale "broadcasts along the axis it declares" - right-aligned to `shape`,
    every dim of the scale is 1 except (possibly) the declared axis, which holds one value per index
    (or a single value, which broadcasts along any axis). Nothing more is demanded."""
    nd = len(shape)
    if len(sshape) > max(nd, 1):
        return False
    al = (1,) * (nd - len(sshape)) + tuple(sshape)
    if nd == 0:
        return all(d == 1 for d in al)
    ax = 0 if axis == 0 else nd - 1
    return all(d == 1 or (i == ax and d == shape[ax]) for i, d in enumerate(al))


def qinvariant(q):
    """List of (issue, detail) for a quantized tensor whose reported metadata disagrees with what it holds."""
    from optimum.quanto.tensor import QBitsTensor, QBytesTensor
    from optimum.quanto.tensor.qbits import PackedTensor

    issues = []
    try:
        with torch.no_grad():
            dq = q.dequantize()
    except Exception as e:  # a tensor that cannot even be dequantized
        return [("dequantize_raises", f"{type(e).__name__}: {e}"[:200])]
    if tuple(dq.shape) != tuple(q.shape):
        issues.append(("shape", f"reports {tuple(q.shape)} holds {tuple(dq.shape)}"))
    if dq.dtype != q.dtype:
        issues.append(("dtype", f"reports {q.dtype} holds {dq.dtype}"))
    if dq.device != q.device:
        issues.append(("device", f"reports {q.device} holds {dq.device}"))
    numel = 1
    for s in q.shape:
        numel *= s
    axis = q.axis
    if isinstance(q, QBytesTensor):
        data, scale = q._data, q._scale
        if data.numel() != numel:
            issues.append(("payload_count", f"{data.numel()} codes for {numel} elements"))
        if data.dtype != q.qtype.dtype:
            issues.append(("payload_dtype", f"{data.dtype} vs qtype storage {q.qtype.dtype}"))
        if q.qtype.bits != 8:
            issues.append(("qtype_bits", str(q.qtype)))
        if axis is None:
            if scale.numel() != 1:
                issues.append(("scale_shape", f"axis None scale {tuple(scale.shape)}"))
        else:
            if axis not in (0, -1):
                issues.append(("axis", str(axis)))
            else:
                if not scale_broadcasts(tuple(q.shape), axis, tuple(scale.shape)):
                    issues.append(("scale_shape", f"axis {axis} scale {tuple(scale.shape)} does not broadcast along it in {tuple(q.shape)}"))
        if scale.device != q.device:
            issues.append(("scale_device", str(scale.device)))
        if scale.dtype != q.dtype:
            issues.append(("scale_dtype", f"{scale.dtype} vs {q.dtype}"))
        if data.device != q.device:
            issues.append(("payload_device", str(data.device)))
    elif isinstance(q, QBitsTensor):
        data, scale, zp = q._data, q._scale, q._zeropoint
        bits = q.qtype.bits
        if not isinstance(data, PackedTensor):
            issues.append(("payload_class", type(data).__name__))
        else:
            if data.bits != bits:
                issues.append(("payload_bits", f"{data.bits} vs {bits}"))
            un = 1
            for s in data.shape:
                un *= s
            if un != numel:
                issues.append(("payload_count", f"{un} codes for {numel} elements"))
            rows = data.shape[0] if len(data.shape) else 1
            want_rows = -(-rows * bits // 8)
            inner = data._data
            if inner.shape[0] != want_rows or tuple(inner.shape[1:]) != tuple(data.shape[1:]):
                issues.append(("payload_rows", f"inner {tuple(inner.shape)} for unpacked {tuple(data.shape)}"))
            if inner.dtype != torch.uint8:
                issues.append(("payload_dtype", str(inner.dtype)))
        if axis not in (0, -1):
            issues.append(("axis", str(axis)))
        else:
            if q._group_size is None:
                ok_s = scale_broadcasts(tuple(q.shape), axis, tuple(scale.shape))
                ok_z = scale_broadcasts(tuple(q.shape), axis, tuple(zp.shape))
                want = "a shape broadcasting along the axis"
            else:
                want = expected_scale_shape(tuple(q.shape), axis, q._group_size)
                ok_s, ok_z = tuple(scale.shape) == want, tuple(zp.shape) == want
            if not ok_s:
                issues.append(("scale_shape", f"axis {axis} gs {q._group_size} scale {tuple(scale.shape)} want {want}"))
            if not ok_z:
                issues.append(("zeropoint_shape", f"{tuple(zp.shape)} want {want}"))
        if zp.dtype != torch.int8:
            issues.append(("zeropoint_dtype", str(zp.dtype)))
        if scale.dtype != q.dtype:
            issues.append(("scale_dtype", f"{scale.dtype} vs {q.dtype}"))
        if scale.device != q.device or zp.device != q.device:
            issues.append(("scale_device", f"{scale.device}/{zp.device}"))
    return issues


def codes_bytes(q):
    """Bytes of the codes (and zero-point) of a quantized tensor: what moves and copies must preserve."""
    leaves, _ = inner_items(q)
    return b"|".join(n.encode() + b":" + tbytes(x) for n, x in leaves if not n.endswith("_scale"))
