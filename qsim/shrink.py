"""Plan minimisation: delta debugging on the (nested) op list, then engine-specific
argument simplification. A candidate is accepted only if the *same violation class*
is reported again by a fresh in-process execution."""
import copy
import time

from .core import violation_class


def _paths(ops, prefix=()):
    out = []
    for i, op in enumerate(ops):
        p = prefix + (i,)
        out.append(p)
        if "body" in op:
            out.extend(_paths(op["body"], p))
    return out


def _remove(ops, path):
    ops = copy.deepcopy(ops)
    cur = ops
    for i in path[:-1]:
        cur = cur[i]["body"]
    del cur[path[-1]]
    return ops


def _unwrap(ops, path):
    """Replace a block by its body."""
    ops = copy.deepcopy(ops)
    cur = ops
    for i in path[:-1]:
        cur = cur[i]["body"]
    blk = cur[path[-1]]
    if "body" not in blk:
        return None
    cur[path[-1] : path[-1] + 1] = blk["body"]
    return ops


def shrink(eng, plan, prop, cls, budget_s=60):
    t_end = time.time() + budget_s

    def fails(p):
        res = eng.execute(p, prop)
        return any(violation_class(v) == cls for v in res["violations"]) and not res["harness_error"]

    best = plan
    if not fails(best):
        return plan  # flaky in-process: do not touch
    # 1. drop top-level chunks (ddmin style), then single (nested) steps
    n = max(1, len(best["ops"]) // 2)
    while n >= 1 and time.time() < t_end:
        i = 0
        changed = False
        while i < len(best["ops"]) and time.time() < t_end:
            cand = dict(best)
            cand["ops"] = best["ops"][:i] + best["ops"][i + n :]
            if cand["ops"] != best["ops"] and fails(cand):
                best = cand
                changed = True
            else:
                i += n
        if n == 1 and not changed:
            break
        n = max(1, n // 2) if n > 1 else (1 if changed else 0)
    progress = True
    while progress and time.time() < t_end:
        progress = False
        for path in reversed(_paths(best["ops"])):
            if time.time() >= t_end:
                break
            for maker in (_remove, _unwrap):
                ops = maker(best["ops"], path)
                if ops is None:
                    continue
                cand = dict(best)
                cand["ops"] = ops
                if fails(cand):
                    best = cand
                    progress = True
                    break
            if progress:
                break
    # 2. engine-specific simplifications
    simp = getattr(eng, "simplifications", None)
    if simp is not None:
        progress = True
        while progress and time.time() < t_end:
            progress = False
            for cand in simp(best):
                if time.time() >= t_end:
                    break
                if fails(cand):
                    best = cand
                    progress = True
                    break
    return best
