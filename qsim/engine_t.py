"""Engine T - tensor programs over a pool of quantized / plain tensors (C05, C06).

A *plan* is a flat JSON list of steps. `make` steps build a tensor into a pool slot from a payload
descriptor (generator seed, shape, dtype, value class, magnitude); every other step applies one torch
operation (`OPS`) to pooled operands and puts its results back into the pool, so that later operands
are views of views, transposed-then-sliced, re-quantized ... tensors that no constructor yields.

The executor is the authority: a step whose operands are missing, or whose *float shadow* call (the
same torch call on the operands dequantized immediately before the step) raises, is logged as
skipped / float_invalid and has no effect - any sub-list of a plan is a valid plan.

One engine, two oracle sets (only the property in focus records violations):
  C05  per-step refinement: result vs shadow, comparison class chosen from the operation
       (exact / float rounding / one output step / accumulation bound); "does not raise".
  C06  metadata invariant I(q) (refmodels.qinvariant) on every pooled quantized tensor after every
       step, also after a step aborted by an injected fault; transition clauses for moves and copies.
Replaying a plan consults no PRNG (payloads come from seeded torch.Generators named in the plan).
"""
import contextlib
import copy
import os
import sys
import warnings

import torch
from torch.utils import _pytree as pytree

from . import refmodels as R
from .core import EventLog, InjectedFault, InjectedInterrupt, RunResult, Violation, bump, hexdigest
from .faults import AtenRaise, make_exc

F = torch.nn.functional
DT = {"float32": torch.float32, "float16": torch.float16, "bfloat16": torch.bfloat16}
POOL = 8
MAX_NUMEL = 4096


def components(prop):
    return {
        "real": [
            "optimum.quanto tensor code from the working tree: QBytesTensor / QBitsTensor / PackedTensor, both dispatch levels (__torch_function__, __torch_dispatch__), qfallback, quantize_activation / quantize_weight / SymmetricQuantizer / AffineQuantizer, state_dict flatten / unflatten",
            "torch CPU kernels and dispatcher (core.pin_torch(): one intra-op thread, oneDNN off); copy.deepcopy; torch.nn.Parameter wrapping",
            "pure-python unpack kernel (library.disable_extensions() is held for the whole run; the C++ kernel is engine K's business)",
        ],
        "stub": [
            "devices: cpu only (to(device) is cpu->cpu, with and without copy=True); no CUDA/MPS kernels, no AWQ tensors",
            "faults are injected exceptions raised from a TorchDispatchMode at the k-th aten call of one step, including the inner kernel calls quanto's own __torch_dispatch__ makes",
            "no autograd: programs run under torch.no_grad()",
            "calls quanto makes to torch._weight_int8pack_mm with K % 16 != 0 (memory-unsafe in this torch build) are intercepted at the torch attribute and reported as a C05 violation instead of being executed",
        ],
    }


# ------------------------------------------------------------------------------------------------
# fault injector: AtenRaise that also sees the kernel calls made *inside* a tensor subclass' dispatch


class DeepAtenRaise(AtenRaise):
    """torch runs dispatch modes before tensor subclasses and disables a mode while its own handler
    runs, so the plain AtenRaise never sees the kernels quanto's __torch_dispatch__ calls. This variant
    hands an op with a subclass argument to that subclass' handler itself, with the mode pushed again,
    so that a fault can land between two inner kernel calls of one quantized op (e.g. between the
    rebinding of `_data` and of `_scale` in copy_). Armed but not firing it is transparent."""

    def __torch_dispatch__(self, func, types, args=(), kwargs=None):
        kwargs = kwargs or {}
        self.points += 1
        if self.k is not None and self.points == self.k and not self.fired:
            self.fired = True
            raise make_exc(self.exc, f"aten#{self.k}:{func}")
        for a in pytree.arg_tree_leaves(*args, **kwargs):
            if isinstance(a, torch.Tensor) and type(a).__torch_dispatch__ is not torch._C._disabled_torch_dispatch_impl:
                with self:
                    return type(a).__torch_dispatch__(func, types, args, kwargs)
        return func(*args, **kwargs)


class UnsoundKernel(RuntimeError):
    """quanto called a torch kernel outside the domain in which that kernel is memory-safe."""

    def __init__(self, tag, msg):
        super().__init__(msg)
        self.tag = tag


@contextlib.contextmanager
def kernel_guard(probe=lambda name: None):
    """Two private torch CPU kernels that quanto routes to read out of bounds for arguments quanto does
    pass (torch 2.14, measured in forked children over M,N,K in 1..33 and seven layouts):
      * torch._weight_int8pack_mm unless K % 16 == 0 (segmentation fault or garbage); quanto uses it
        for bfloat16 x int8 linears whenever K % 4 == 0;
      * torch._int_mm, with oneDNN enabled (core.pin_torch() turns it off for simulated runs, so this
        half is a safety net for ad-hoc use), when both operands have a unit stride and one of them, of shape
        (r, c), has a leading dimension smaller than its extent - strides (s0 < c, 1) or (1, s1 < r):
        what `weights.t()` is for in_features == 1, what `.view(-1, 1)` of a transposed payload is,
        what an expanded operand is. Garbage, different on every call (5000 random cases in forked
        children: the rule is exact in both directions).
    Both are intercepted at the torch attribute quanto looks up (a seam of DESIGN 3.6) and turned into
    an exception, so that a run reports the call instead of dying or turning nondeterministic; inside
    the kernels' sound domain the wrappers are transparent."""
    real_pack, real_imm = torch._weight_int8pack_mm, torch._int_mm

    def pack(a, b, scales):
        if a.shape[-1] % 16 != 0:
            raise UnsoundKernel("int8pack_mm_K_not_multiple_of_16", f"torch._weight_int8pack_mm called with A{tuple(a.shape)} B{tuple(b.shape)}: K={a.shape[-1]} is not a multiple of 16")
        probe("route_weight_int8pack_mm")
        return real_pack(a, b, scales)

    def bad_ld(t):
        (r, c), (s0, s1) = t.shape, t.stride()
        return s0 < c if s1 == 1 else (s0 == 1 and s1 < r)

    def imm(a, b, *args, **kw):
        if torch.backends.mkldnn.enabled and a.dim() == 2 and b.dim() == 2 and all(1 in t.stride() for t in (a, b)):
            for t in (a, b):
                if bad_ld(t):
                    raise UnsoundKernel("int_mm_operand_leading_dimension_smaller_than_extent", f"torch._int_mm called with an operand of shape {tuple(t.shape)} and strides {tuple(t.stride())}")
        probe("route_int_mm")
        return real_imm(a, b, *args, **kw)

    torch._weight_int8pack_mm, torch._int_mm = pack, imm
    try:
        yield
    finally:
        torch._weight_int8pack_mm, torch._int_mm = real_pack, real_imm


# ------------------------------------------------------------------------------------------------
# payloads and auxiliary tensors (all from generators named in the plan)


def _gen(seed):
    return torch.Generator().manual_seed(int(seed) % (1 << 62))


def payload(d):
    """Plain tensor from a payload descriptor {seed, shape, dtype, cls, mag, nc}."""
    g = _gen(d["seed"])
    shape = list(d["shape"])
    gs = shape[::-1] if d.get("nc") else shape
    cls = d.get("cls", "noise")
    x = torch.randn(gs, generator=g, dtype=torch.float32)
    if cls == "uniform":
        x = torch.rand(gs, generator=g) * 2 - 1
    elif cls == "onesided":
        x = x.abs()
    elif cls == "peak":
        x = x * 0.05
        x.reshape(-1)[0] = 1.0
    elif cls == "const":
        x = torch.full(gs, 0.75)
    elif cls == "exact":
        x = torch.randint(-4, 5, gs, generator=g).to(torch.float32)
    elif cls == "zero_rows" and x.dim() >= 1 and x.shape[0] > 1:
        x[0] = 0
    x = (x * d.get("mag", 1.0)).to(DT[d["dtype"]])
    if d.get("nc") and x.dim() > 1:
        x = x.permute(*reversed(range(x.dim())))
    return x


def absmax_scale(x, qtype, axis, f):
    """Scale so that the largest magnitude maps to qmax/f (f<1: saturating), in x.dtype."""
    qmax = R.qrange(qtype)[1]
    if axis is None:
        m = x.abs().max()
    else:
        dims = list(range(1, x.dim())) if axis == 0 else list(range(0, x.dim() - 1))
        m = x.abs().amax(dim=dims, keepdim=True)
    return (m / qmax * f).to(x.dtype)


def build_aux(op, fx):
    """Index / mask / target / bias tensors of a step, generated from the step's descriptors and the
    (float) operand shapes; shared by the shadow call and the quantized call."""
    aux = {}
    x = fx[0] if fx else None
    if "mask" in op:
        m = op["mask"]
        aux["mask"] = torch.rand(tuple(x.shape), generator=_gen(m["seed"])) < m["p"]
    if "index" in op:
        d = op["index"]
        aux["index"] = torch.randint(0, x.shape[op["dim"]], (d["n"],), generator=_gen(d["seed"]))
    if "target" in op:
        aux["target"] = torch.randint(0, x.shape[-1], tuple(x.shape[:-1]), generator=_gen(op["target"]["seed"]))
    if op.get("bias") is not None:
        aux["bias"] = payload(op["bias"]).to(x.dtype)
    return aux


def _index(spec):
    out = []
    for e in spec:
        if e[0] == "s":
            out.append(slice(e[1], e[2], e[3]))
        elif e[0] == "i":
            out.append(e[1])
        elif e[0] == "n":
            out.append(None)
        else:
            out.append(Ellipsis)
    return tuple(out)


def _scalar(a, x):
    s = a["s"]
    if s.get("as") in ("t0", "t1", "t11"):
        t = torch.tensor(s["v"], dtype=DT[s["dtype"]] if s.get("dtype") else x.dtype)
        # one-element tensors that are not 0-d (a gain or temperature buffer of shape (1,) or (1, 1))
        return t if s["as"] == "t0" else t.reshape((1,) if s["as"] == "t1" else (1, 1))
    return s["v"]


def _other(xs, a):
    return xs[1] if len(xs) > 1 else a["other"]


def _muldiv(fn):
    def call(xs, a, u):
        x, s, form = xs[0], _scalar(a, xs[0]), a.get("form", "ts")
        if fn == "mul":
            return x * s if form == "ts" else (s * x if form == "st" else torch.mul(x, s))
        return x / s if form == "ts" else (s / x if form == "st" else torch.div(s, x))

    return call


def _state_dict(xs, a, u):
    """flatten -> dict of plain tensors and strings -> unflatten, as QModuleMixin does for its weight."""
    from optimum.quanto.tensor import QBitsTensor, QBytesTensor

    x = xs[0]
    if not R.is_q(x):
        return x.clone()
    m = torch.nn.Module()
    m.weight = torch.nn.Parameter(x, requires_grad=False)
    d = {}
    m.weight.save_to_state_dict(d, "weight.", False)
    cls = QBytesTensor if x.qtype.bits == 8 else QBitsTensor
    return cls.load_from_state_dict(d, "weight.")


def _dim(a):
    return {} if a.get("dim") is None else {"dim": a["dim"], "keepdim": bool(a.get("keepdim"))}


# name -> (number of pooled operands (0 = a list of 2..3), call(xs, args, aux), comparison class, family)
OPS = {
    # ---- intercepted by quanto
    "view": (1, lambda xs, a, u: xs[0].view(*a["shape"]), "exact", "view"),
    "unsafe_view": (1, lambda xs, a, u: torch.ops.aten._unsafe_view(xs[0], a["shape"]), "exact", "view"),
    "reshape": (1, lambda xs, a, u: xs[0].reshape(a["shape"]), "exact", "view"),
    "t": (1, lambda xs, a, u: xs[0].t(), "exact", "view"),
    "transpose": (1, lambda xs, a, u: xs[0].transpose(a["d0"], a["d1"]), "exact", "view"),
    "permute": (1, lambda xs, a, u: xs[0].permute(a["dims"]), "exact", "view"),
    "select": (1, lambda xs, a, u: xs[0].select(a["dim"], a["i"]), "exact", "view"),
    "slice": (1, lambda xs, a, u: xs[0][_index(a["idx"])], "exact", "view"),
    "expand": (1, lambda xs, a, u: xs[0].expand(a["sizes"]), "exact", "view"),
    "unsqueeze": (1, lambda xs, a, u: xs[0].unsqueeze(a["dim"]), "exact", "view"),
    "cat": (0, lambda xs, a, u: torch.cat(list(xs), a["dim"]), "exact", "join"),
    "stack": (0, lambda xs, a, u: torch.stack(list(xs), a["dim"]), "exact", "join"),
    "split": (1, lambda xs, a, u: xs[0].split(a["size"], a["dim"]), "exact", "view"),
    "mul": (1, _muldiv("mul"), "ulp", "scale"),
    "div": (1, _muldiv("div"), "ulp", "scale"),
    "neg": (1, lambda xs, a, u: -xs[0], "exact", "elem"),
    "relu": (1, lambda xs, a, u: F.relu(xs[0]), "exact", "elem"),
    "softmax": (1, lambda xs, a, u: F.softmax(xs[0], dim=a["dim"]), "step", "requant"),
    "where": (-1, lambda xs, a, u: torch.where(u["mask"], xs[0], _other(xs, a)), "step", "requant"),
    "lt": (-1, lambda xs, a, u: torch.lt(xs[0], _other(xs, a)), "exact", "elem"),
    "clone": (1, lambda xs, a, u: xs[0].clone(**({"memory_format": torch.contiguous_format} if a.get("mf") else {})), "exact", "move"),
    "copy_": (2, lambda xs, a, u: xs[0].copy_(xs[1]), "exact", "move"),
    "detach": (1, lambda xs, a, u: xs[0].detach(), "exact", "move"),
    "to_dtype": (1, lambda xs, a, u: xs[0].to(DT[a["dtype"]], copy=True) if a.get("copy") else xs[0].to(DT[a["dtype"]]), "ulp", "move"),
    "to_device": (1, lambda xs, a, u: xs[0].to(device="cpu", copy=True) if a.get("copy") else xs[0].to("cpu"), "exact", "move"),
    "is_same_size": (2, lambda xs, a, u: xs[0].is_same_size(xs[1]), "exact", "move"),
    "mm": (2, lambda xs, a, u: torch.mm(xs[0], xs[1]), "accum", "contract"),
    "bmm": (2, lambda xs, a, u: torch.bmm(xs[0], xs[1]), "accum", "contract"),
    "matmul": (2, lambda xs, a, u: torch.matmul(xs[0], xs[1]), "accum", "contract"),
    "linear": (2, lambda xs, a, u: F.linear(xs[0], xs[1], u.get("bias")), "accum", "contract"),
    # ---- passed through to PyTorch (qfallback or an intercepted aten op underneath)
    "add": (-1, lambda xs, a, u: torch.add(xs[0], _other(xs, a)), "exact", "pass"),
    "sub": (-1, lambda xs, a, u: torch.sub(xs[0], _other(xs, a)), "exact", "pass"),
    "mul_tt": (2, lambda xs, a, u: torch.mul(xs[0], xs[1]), "exact", "pass"),
    "div_tt": (2, lambda xs, a, u: torch.div(xs[0], xs[1]), "exact", "pass"),
    "abs": (1, lambda xs, a, u: torch.abs(xs[0]), "exact", "pass"),
    "exp": (1, lambda xs, a, u: torch.exp(xs[0]), "exact", "pass"),
    "sum": (1, lambda xs, a, u: torch.sum(xs[0], **_dim(a)), "exact", "pass"),
    "mean": (1, lambda xs, a, u: torch.mean(xs[0], **_dim(a)), "exact", "pass"),
    "amax": (1, lambda xs, a, u: torch.amax(xs[0], **_dim(a)), "exact", "pass"),
    "argmax": (1, lambda xs, a, u: torch.argmax(xs[0], **_dim(a)), "exact", "pass"),
    "gelu": (1, lambda xs, a, u: F.gelu(xs[0]), "exact", "pass"),
    "silu": (1, lambda xs, a, u: F.silu(xs[0]), "exact", "pass"),
    "sigmoid": (1, lambda xs, a, u: torch.sigmoid(xs[0]), "exact", "pass"),
    "pow": (1, lambda xs, a, u: torch.pow(xs[0], a["exponent"]), "exact", "pass"),
    "layer_norm": (1, lambda xs, a, u: F.layer_norm(xs[0], tuple(xs[0].shape[-a["n"] :])), "exact", "pass"),
    "log_softmax": (1, lambda xs, a, u: F.log_softmax(xs[0], dim=a["dim"]), "exact", "pass"),
    "cross_entropy": (1, lambda xs, a, u: F.cross_entropy(xs[0], u["target"]), "exact", "pass"),
    "cosine_similarity": (2, lambda xs, a, u: F.cosine_similarity(xs[0], xs[1], dim=a["dim"]), "exact", "pass"),
    "topk": (1, lambda xs, a, u: torch.topk(xs[0], a["k"], dim=a["dim"]), "exact", "pass"),
    "flatten": (1, lambda xs, a, u: torch.flatten(xs[0], a["start"], a["end"]), "exact", "pass"),
    "squeeze": (1, lambda xs, a, u: xs[0].squeeze() if a.get("dim") is None else xs[0].squeeze(a["dim"]), "exact", "pass"),
    "chunk": (1, lambda xs, a, u: xs[0].chunk(a["n"], a["dim"]), "exact", "pass"),
    "index_select": (1, lambda xs, a, u: torch.index_select(xs[0], a["dim"], u["index"]), "exact", "pass"),
    "masked_fill": (1, lambda xs, a, u: xs[0].masked_fill(u["mask"], a["value"]), "exact", "pass"),
    "contiguous": (1, lambda xs, a, u: xs[0].contiguous(), "exact", "pass"),
    # ---- serialization and copy protocols
    "state_dict": (1, _state_dict, "exact", "move"),
    "deepcopy": (1, lambda xs, a, u: copy.deepcopy(xs[0]), "exact", "move"),
}
VIEW_OPS = {"view", "unsafe_view", "reshape", "t", "transpose", "permute", "select", "slice", "expand", "unsqueeze", "split", "flatten", "chunk", "squeeze"}
COPY_OPS = {"clone", "detach", "to_device", "deepcopy", "state_dict", "contiguous"}  # C06: codes bit-equal afterwards
INPLACE = {"copy_"}


# ------------------------------------------------------------------------------------------------
# small observers


def is_qbytes(t):
    from optimum.quanto.tensor import QBytesTensor

    return isinstance(t, QBytesTensor)


def opclass(t):
    """Operand class used in violation signatures: what kind of thing an operand is, not its values."""
    from optimum.quanto.tensor import QBitsTensor

    if is_qbytes(t):
        ax = "per-tensor" if t.axis is None else f"axis{t.axis}"
        return f"qbytes/{ax}/{'float8' if t.qtype.is_floating_point else t.qtype.name}"
    if isinstance(t, QBitsTensor):
        return f"qbits/{t.qtype.name}/{'grouped' if t._group_size is not None else f'axis{t.axis}'}"
    if isinstance(t, torch.Tensor):
        return "plain"
    return "scalar"


def _overlaps(t):
    return torch._debug_has_internal_overlap(_inner(t)) == 1


def _inner(t):
    while type(t) is not torch.Tensor and hasattr(t, "_data"):
        t = t._data
    return t


def _partial_alias(a, b):
    a, b = _inner(a), _inner(b)
    if a.untyped_storage().data_ptr() != b.untyped_storage().data_ptr():
        return False
    return (tuple(a.shape), a.stride(), a.storage_offset()) != (tuple(b.shape), b.stride(), b.storage_offset())


def _storage_key(t):
    return _inner(t).untyped_storage().data_ptr()


def exc_site(e):
    """<file.py:function> of the innermost frame inside optimum/quanto the exception went through
    (the outermost one for RecursionError, whose innermost frame depends on the caller's stack depth);
    'torch' when it never touched quanto code."""
    tb, frames = e.__traceback__, []
    while tb is not None:
        co = tb.tb_frame.f_code
        if "optimum/quanto" in co.co_filename.replace("\\", "/"):
            frames.append(f"{os.path.basename(co.co_filename)}:{co.co_name}")
        tb = tb.tb_next
    if not frames:
        return "torch"
    return frames[0] if isinstance(e, RecursionError) else frames[-1]


@contextlib.contextmanager
def shallow_recursion(margin=300):
    """quanto has unbounded mutual recursions (tensor / quantized tensor); at the default limit of
    1000 python frames the dispatcher's C stack overflows first and the process dies. A lower limit
    around the call under test turns them into an ordinary RecursionError."""
    depth, f = 0, sys._getframe()
    while f is not None:
        depth, f = depth + 1, f.f_back
    old = sys.getrecursionlimit()
    sys.setrecursionlimit(min(old, depth + margin))
    try:
        yield
    finally:
        sys.setrecursionlimit(old)


def as_list(r):
    return list(r) if isinstance(r, (tuple, list)) else [r]


def _eq(a, b):
    """Elementwise 'same value': ==, with NaN equal to NaN (and +0 equal to -0)."""
    if a.dtype.is_floating_point:
        return (a == b) | (a.isnan() & b.isnan())
    return a == b


def _f8_spacing(c, dtype):
    """Spacing of float8 values around magnitude c (float64)."""
    mant, dmin = (3, 2.0**-9) if dtype == torch.float8_e4m3fn else (2, 2.0**-16)
    return torch.clamp(c.abs() * 2.0**-mant, min=dmin)


# ------------------------------------------------------------------------------------------------
# the world


class World:
    def __init__(self, plan, prop, keep_log=False):
        self.plan, self.prop = plan, prop
        self.res = RunResult.new()
        self.log = EventLog(keep=keep_log)
        self.pool = {}
        self.origin = {}  # slot -> op that produced it
        self.trace, self.states = [], set()
        self.dest_before = None  # value of an in-place op's destination before the float shadow call

    # ---------------------------------------------------------------- reporting
    def violate(self, prop, oracle, op, sig, detail, i):
        if prop != self.prop:
            return
        sig = {k: v for k, v in sig.items() if v is not None}
        self.res["violations"].append(Violation(property=prop, oracle=oracle, op=op, sig=sig, step=[i], detail=str(detail)[:1500]))
        self.log.add("violation", prop, oracle, op, sorted(sig.items()))

    def probe(self, name, n=1):
        bump(self.res["probes"], name, n)

    def tsig(self, t, shared):
        if R.is_q(t):
            return (type(t).__name__, t.qtype.name, t.axis, t.dim(), t.is_contiguous(), tuple(t._data.shape) == tuple(t.shape), shared)
        return ("plain", str(t.dtype), None, t.dim(), t.is_contiguous(), True, shared)

    def state_sig(self):
        keys = {s: _storage_key(t) for s, t in self.pool.items()}
        cnt = {}
        for k in keys.values():
            bump(cnt, k)
        return hexdigest(sorted(repr(self.tsig(t, cnt[keys[s]] > 1)) for s, t in self.pool.items()))

    # ---------------------------------------------------------------- execution
    def run(self):
        from optimum.quanto.library import disable_extensions

        from . import core

        core.pin_torch()  # one intra-op thread, oneDNN off: the ambient configuration of every simulated run
        R.ambient_reset()
        with warnings.catch_warnings():
            warnings.simplefilter("ignore")
            with torch.no_grad(), disable_extensions(), kernel_guard(self.probe):
                for i, op in enumerate(self.plan["ops"]):
                    before = self.state_sig()
                    self.res["steps"] += 1
                    outcome = self.op_make(op, i) if op["op"] == "make" else self.op_apply(op, i)
                    after = self.state_sig()
                    self.states.add(after)
                    self.trace.append((op["op"], before[:8], outcome))
                    self.log.add("step", i, op["op"], outcome, after)
                    if outcome in ("skipped", "float_invalid"):
                        self.res["skipped"] += 1
        res = self.res
        res["log_digest"] = self.log.digest()
        if hasattr(self.log, "behaviour_digest"):  # what the system under test did ("built" / "out" records) as opposed to what was observed about it
            res["behaviour_digest"] = self.log.behaviour_digest()
        res["trace"] = self.trace[:200]
        res["trace_hash"] = hexdigest(self.trace)
        res["states"] = sorted(self.states)
        if self.log.keep:
            res["log_records"] = self.log.records
        self.pool.clear()
        return res

    def op_make(self, op, i):
        from optimum.quanto import quantize_activation, quantize_weight
        from optimum.quanto.tensor import SymmetricQuantizer, qtypes

        kind = op["kind"]
        x = payload(op["payload"])
        name = {"plain": "make", "act": "quantize_activation", "weight": "quantize_weight", "sym": "symmetric_quantizer"}[kind]
        try:
            if kind == "plain":
                t = x
            elif kind == "act":
                qt = qtypes[op["qtype"]]
                t = quantize_activation(x, qtype=qt, scale=absmax_scale(x, qt, None, op.get("f", 1.0)))
            elif kind == "weight":
                t = quantize_weight(x, qtypes[op["qtype"]], op["axis"], op.get("group"))
            else:
                qt, axis = qtypes[op["qtype"]], op.get("axis")
                t = SymmetricQuantizer.apply(x, qt, axis, absmax_scale(x, qt, axis, op.get("f", 1.0)))
        except Exception as e:  # a refused construction (1-D per-axis, group size not a divisor ...) is not judged
            self.log.add("make_failed", type(e).__name__)
            return "skipped"
        self.put(op["dst"], t, name)
        self.log.add("built", op["dst"], R.tensor_digest(t))
        self.code_probes(t)
        self.check_pool(name, i, {op["dst"]}, False)
        return "ok:" + opclass(t).split("/")[0]

    def code_probes(self, t):
        if is_qbytes(t):
            d = t._data
            if t.qtype.is_floating_point:
                if (d.to(torch.float32).abs() == torch.finfo(d.dtype).max).any():
                    self.probe("float8_endpoint_present")
            elif (d == -128).any():
                self.probe("saturated_code_present")
            if (t._scale < 0).any():
                self.probe("negative_scale_tensor")

    def put(self, slot, t, origin, src_slot=None, src_obj=None):
        """froot: which tensor of the *float* program this slot is a view of (views, detach and ops that
        return their argument inherit it; everything else is a new float tensor)."""
        froot = self.__dict__.setdefault("froot", {})
        if src_slot is not None and (origin in VIEW_OPS or origin in ("detach", "state_dict") or t is src_obj) and src_slot in froot:
            root = froot[src_slot]
        else:
            self.nroot_f = self.__dict__.get("nroot_f", 0) + 1
            root = self.nroot_f
        self.pool[slot] = t
        self.origin[slot] = origin
        froot[slot] = root
        # which operation made a tensor that is separate in the float program share its operand's payload memory
        sb = self.__dict__.setdefault("shared_by", {})
        inherited = sb.get(src_slot) if (src_slot is not None and root == froot.get(src_slot)) else None
        sb.pop(slot, None)
        if inherited:
            sb[slot] = inherited  # a view of such a result shares the same memory for the same reason
        try:
            if src_obj is not None and is_qbytes(t) and is_qbytes(src_obj) and t is not src_obj and root != froot.get(src_slot) and t._data.untyped_storage().data_ptr() == src_obj._data.untyped_storage().data_ptr():
                sb[slot] = origin
        except Exception:
            pass

    def op_apply(self, op, i):
        fn = op["op"]
        n, call, cls, fam = OPS[fn]
        src = op.get("src", [])
        xs = [self.pool.get(s) for s in src]
        if not xs or any(x is None for x in xs) or (n > 0 and len(xs) != n):
            return "skipped"
        qany = any(R.is_q(x) for x in xs)
        if fn in INPLACE and (_overlaps(xs[0]) or _partial_alias(xs[0], xs[1])):
            return "float_invalid"  # torch refuses to write into a self-overlapping tensor, or from a differently laid out alias, for floats too (the dequantized shadows would hide that)
        # ---- float shadow: the same call on the operands dequantized immediately before the step
        try:
            fx = [x.dequantize() if R.is_q(x) else (x.clone() if fn in INPLACE and j == 0 else x) for j, x in enumerate(xs)]
            aux = build_aux(op, fx)
            self.dest_before = fx[0].clone() if fn in INPLACE else None
            exp = call(fx, op, aux)
        except Exception as e:
            self.log.add("float_invalid", type(e).__name__)
            if self.prop == "C05" and fn in INPLACE and R.is_q(xs[0]) and "fx" in locals() and isinstance(locals().get("fx"), list) and not op.get("fault"):
                # the float program refuses this in-place call and leaves its destination as it was: the quantized
                # call is made too (a caller catches the error and carries on) and must leave the destination alone
                before = fx[0]
                try:
                    with shallow_recursion():
                        call(xs, op, locals().get("aux"))
                    refused = False
                except (InjectedFault, InjectedInterrupt):
                    raise
                except Exception:
                    refused = True
                try:
                    now = xs[0].dequantize()
                    same = now.shape == before.shape and bool(((now == before) | (torch.isnan(now) & torch.isnan(before))).all())
                except Exception:
                    same = False
                self.res["judged"] += 1
                self.probe("inplace_call_refused_by_float_program")
                if refused and not same:
                    self.violate("C05", "operand", fn, {"clause": "value", "cause": "destination_changed_by_refused_inplace_call", "operands": opclass(xs[0])}, f"{fn} raised (as the float call does) but its destination (slot {src[0]}) no longer dequantizes to what it did", i)
                self.check_pool(fn, i, set(), False)
            return "float_invalid"
        if fn in ("view", "unsafe_view") and R.is_q(xs[0]):
            # whether a view exists depends on strides, and the dequantized shadow is always dense: ask
            # the question again on a dummy laid out as the quantized tensor says it is
            x, inner = xs[0], _inner(xs[0])
            st = inner.stride() if tuple(inner.shape) == tuple(x.shape) else x.stride()
            try:
                call([torch.empty_strided(tuple(x.shape), st, dtype=fx[0].dtype)], op, aux)
            except Exception as e:
                self.log.add("float_invalid", "layout", type(e).__name__)
                return "float_invalid"
        self.step_probes(fn, op, xs, src)
        snap = self.snapshot(fn, xs) if self.prop == "C06" else None
        self._copy_dest_slot = src[0] if src else None
        alias_exp = self.alias_expectations(fn, xs, fx, src) if self.prop == "C05" else None
        # ---- the quantized call, possibly with a fault armed
        fd = op.get("fault")
        inj = DeepAtenRaise(fd["k"]) if fd else contextlib.nullcontext()
        got = exc = None
        aborted = False
        if fd:
            bump(self.res["faults_armed"], "aten_raise")
        try:
            with inj, shallow_recursion():
                got = call(xs, op, aux)
        except (InjectedFault, InjectedInterrupt):
            aborted = True
        except Exception as e:
            exc = e
        if fd and inj.fired:
            bump(self.res["faults_fired"], "aten_raise")
            if inj.k > 1:
                self.probe("fault_inside_step")
        if aborted or (fd and inj.fired):
            # C05: a fault-aborted step counts as not executed; C06: I(q) must still hold everywhere
            if not aborted:
                self.probe("fault_swallowed")
            if fn in INPLACE and inj.k > 1 and R.is_q(xs[0]):
                self.probe("inplace_op_aborted_midway")
            self.log.add("aborted", inj.k)
            self.check_pool(fn, i, set(), True)
            return "aborted"
        if isinstance(exc, UnsoundKernel):
            self.probe("unsound_kernel_call_intercepted")
            if qany and self.prop == "C05":
                self.res["judged"] += 1
            self.violate("C05", "shadow", fn, self.sig5(fn, op, xs, f"unsound_kernel_call@{exc_site(exc)}", exc.tag), f"float program valid; {exc} - outside the kernel's memory-safe domain (segmentation fault or garbage when executed)", i)
            self.log.add("hazard")
            return "hazard"
        if exc is not None:
            outcome = self.judge_raise(fn, op, xs, exc, i) if qany else "raised_plain"
            self.log.add("raised", type(exc).__name__)
            self.check_pool(fn, i, set(), False)
            return outcome
        G = as_list(got)
        self.log.add("out", [R.tensor_digest(g) if isinstance(g, torch.Tensor) else repr(g) for g in G])
        if alias_exp:
            self.judge_aliases(fn, op, xs, alias_exp, i)
        if self.prop == "C05":
            # an operation that is not in-place leaves its operands what they were (the float program's operands do
            # not change): a later step of the program reads them again
            for j, x in enumerate(xs):
                if not R.is_q(x) or (fn in INPLACE and j == 0) or not isinstance(fx[j], torch.Tensor):
                    continue
                try:
                    now = x.dequantize()
                except Exception:
                    continue
                if now.shape != fx[j].shape or not bool(((now == fx[j]) | (torch.isnan(now) & torch.isnan(fx[j]))).all()):
                    self.res["judged"] += 1
                    self.violate("C05", "operand", fn, {"clause": "value", "cause": "operand_changed_by_operation", "operand": j, "operands": opclass(x)}, f"operand {j} of {fn} (slot {src[j] if j < len(src) else '?'}) dequantizes differently after the call: the operation modified its input", i)
                    break
        if qany and self.prop == "C05":
            self.res["judged"] += 1
            self.judge_values(fn, op, cls, xs, fx, aux, as_list(exp), G, i)
        # ---- results go back into the pool
        dst = op.get("dst", [])
        fresh = set()
        for slot, g in zip(dst, G):
            if isinstance(g, torch.Tensor) and (R.is_q(g) or g.dtype.is_floating_point) and 0 < g.numel() <= MAX_NUMEL and slot < POOL:
                self.put(slot, g, fn, src[0] if src else None, xs[0] if xs else None)
                fresh.add(slot)
                if fam == "requant":
                    self.code_probes(g)
        if snap is not None:
            self.judge_transition(fn, op, snap, G, i)
        self.check_pool(fn, i, fresh, False)
        return "ok:" + ",".join(opclass(g).split("/")[0] for g in G[:3])

    def alias_expectations(self, fn, xs, fx, src):
        """What an in-place `copy_` into a quantized tensor does to the *other* pooled tensors that share its
        payload memory, against the float program: a view of the destination (same float tensor) follows it - judged
        when all its elements lie inside the destination (a partial overlap is a different matter: the quantized
        copy_ replaces the one scale the whole base shares); a tensor that is a *different* tensor in the float
        program (the result of a scalar mul/div shares its operand's payload) must not change at all.
        Returns [(slot, tensor, expected float64 values, kind)] computed before the call."""
        if fn != "copy_" or not (is_qbytes(xs[0]) and xs[0].axis is None and is_qbytes(xs[1]) and xs[1].axis is None and xs[0].qtype == xs[1].qtype):
            return None
        D = xs[0]
        froot = self.__dict__.get("froot", {})
        droot = froot.get(src[0])
        try:
            dd = D._data
            st = dd.untyped_storage()
            n = st.nbytes() // dd.element_size()
            if n > 1 << 16 or tuple(dd.shape) != tuple(D.shape) or not bool(torch.isfinite(fx[1].to(torch.float64)).all()):
                return None
            out = []
            for slot, V in self.pool.items():
                if V is D or slot == src[0] or not (is_qbytes(V) and V.axis is None):
                    continue
                vd = V._data
                if vd.untyped_storage().data_ptr() != st.data_ptr() or tuple(vd.shape) != tuple(V.shape):
                    continue
                if froot.get(slot) is not None and froot.get(slot) == droot:
                    if V.qtype != D.qtype or V.dtype != D.dtype:
                        continue
                    Sf = torch.full((n,), float("nan"), dtype=torch.float64)
                    FD = torch.as_strided(Sf, tuple(dd.shape), dd.stride(), dd.storage_offset())
                    FD.copy_(fx[1].to(torch.float64))
                    FV = torch.as_strided(Sf, tuple(vd.shape), vd.stride(), vd.storage_offset())
                    if bool(torch.isnan(FV).any()):
                        continue
                    out.append((slot, V, FV.clone(), "view"))
                else:
                    out.append((slot, V, V.dequantize().to(torch.float64).clone(), "independent"))
            return out
        except Exception:
            return None

    def judge_aliases(self, fn, op, xs, alias_exp, i):
        for slot, V, want, kind in alias_exp:
            if kind == "view" and xs[0].dtype != xs[1].dtype:
                continue  # the copy casts the scale: the exact class does not apply
            try:
                got = V.dequantize().to(torch.float64)
            except Exception:
                continue
            self.res["judged"] += 1
            self.probe("view_followed_through_inplace_copy" if kind == "view" else "independent_tensor_sharing_payload_watched")
            bad = ~((got == want) | (torch.isnan(got) & torch.isnan(want)))
            if bool(bad.any()):
                k = int(torch.nonzero(bad.reshape(-1))[0])
                cause = "view_does_not_follow_its_base" if kind == "view" else "independent_result_changed_by_inplace_copy"
                sb = self.__dict__.get("shared_by", {})
                shared_by = sb.get(slot) or sb.get(self._copy_dest_slot) or "unknown"
                self.violate("C05", "alias", fn, {"clause": "value", "cause": cause, "shared_by": shared_by if kind != "view" else None, "made_by": str(self.origin.get(slot)), "operands": opclass(V)}, f"slot {slot} (made by {self.origin.get(slot)}, {kind} in the float program) after copy_ into slot sharing its payload: {int(bad.sum())}/{bad.numel()} elements differ from the float program; first at flat {k}: got {got.reshape(-1)[k].item()!r}, float program {want.reshape(-1)[k].item()!r}", i)

    def step_probes(self, fn, op, xs, src):
        x = xs[0]
        if fn in VIEW_OPS and self.origin.get(src[0]) in VIEW_OPS:
            self.probe("view_of_view")
        if fn == "t" and is_qbytes(x) and x.axis is not None:
            self.probe("per_axis_after_t")
        if fn in ("cat", "stack"):
            sc = [x._scale for x in xs if is_qbytes(x) and x.axis is None]
            if len(sc) >= 2 and any(not torch.equal(sc[0], s) for s in sc[1:]):
                self.probe(fn + "_unequal_scales")
            elif len(sc) == len(xs):
                self.probe(fn + "_equal_scales")
        if fn == "copy_":
            k = _storage_key(x)
            if any(_storage_key(t) == k for s, t in self.pool.items() if t is not x):
                self.probe("copy_into_alias")
            if not R.is_q(x) and R.is_q(xs[1]):
                self.probe("copy_quantized_into_plain")
        for t in xs:
            if R.is_q(t):
                if not is_qbytes(t):
                    self.probe("qbits_operand")
                if (t._scale < 0).any():
                    self.probe("negative_scale_operand")
                if not t.is_contiguous():
                    self.probe("noncontiguous_quantized_operand")

    # ---------------------------------------------------------------- C05
    def sig5(self, fn, op, xs, clause, cause=None):
        ops = [opclass(x) for x in xs]
        if OPS[fn][0] == 0:  # cat / stack: order and repeats are immaterial
            ops = sorted(set(ops))
        if "s" in op:
            ops.append({"t0": "scalar0d", "t1": "tensor1", "t11": "tensor11"}.get(op["s"].get("as"), "scalar"))
        elif "other" in op and len(xs) == 1:
            ops.append("scalar")
        return {"operands": ",".join(ops), "clause": clause, "cause": cause, "form": op.get("form")}

    def judge_raise(self, fn, op, xs, exc, i):
        if self.prop == "C05":
            self.res["judged"] += 1
        # the two documented refusals, which must be exactly these exceptions
        if fn == "to_dtype" and any(R.is_q(x) and not is_qbytes(x) for x in xs) and type(exc) is ValueError:
            self.probe("refusal_to_dtype_packed")
            return "refused"
        if fn == "where" and len(xs) > 1 and R.is_q(xs[1]) and type(exc) is NotImplementedError:
            self.probe("refusal_where_quantized_other")
            return "refused"
        clause = f"raises:{type(exc).__name__}@{exc_site(exc)}"
        self.violate("C05", "shadow", fn, self.sig5(fn, op, xs, clause), f"float program valid, quantized call raised {type(exc).__name__}: {str(exc)[:300]}", i)
        return "raised:" + type(exc).__name__

    def judge_values(self, fn, op, cls, xs, fx, aux, E, G, i):
        def bad(clause, cause, detail):
            self.violate("C05", "shadow", fn, self.sig5(fn, op, xs, clause, cause), detail, i)

        if len(E) != len(G):
            return bad("type", "count", f"{len(G)} results, float program gives {len(E)}")
        for j, (e, g) in enumerate(zip(E, G)):
            if not isinstance(e, torch.Tensor):
                if isinstance(g, torch.Tensor) or type(g) is not type(e):
                    return bad("type", "python_type", f"result {type(g).__name__}, float program gives {type(e).__name__}")
                if g != e:
                    return bad("value", None, f"result {g!r}, float program gives {e!r}")
                continue
            if not isinstance(g, torch.Tensor):
                return bad("type", "python_type", f"result {type(g).__name__}, float program gives a tensor")
            try:
                gd = g.dequantize() if R.is_q(g) else g
            except Exception as ex:
                return bad("type", "result_not_dequantizable", f"result[{j}].dequantize() raised {type(ex).__name__}: {ex}")
            if tuple(gd.shape) != tuple(e.shape):
                return bad("type", "shape", f"result[{j}] holds {tuple(gd.shape)}, float program gives {tuple(e.shape)}")
            if gd.dtype != e.dtype:
                return bad("type", "dtype", f"result[{j}] is {gd.dtype}, float program gives {e.dtype}")
            if e.numel() == 0:
                continue
            c = cls
            if fn == "copy_" and xs[0].dtype != xs[1].dtype:
                c = "ulp"  # a converting copy is a dtype move
            if fn in ("mul_tt", "div_tt") and any(not R.is_q(t) and t.dim() == 0 for t in xs):
                c = "ulp"  # a 0-d tensor is a scalar to quanto: the scale is multiplied, a rescaling
            if c == "step" and not R.is_q(g):
                c = "exact"  # nothing was re-quantized: there is no output scale to speak of
            wrong, note = self.compare(c, fn, op, xs, fx, aux, e, g, gd, j)
            if wrong is not None and bool(wrong.any()):
                k = int(wrong.reshape(-1).nonzero()[0])
                ev, gv = e.reshape(-1)[k].item(), gd.reshape(-1)[k].item()
                cause = self.cause(fn, xs, e, g, gd, wrong)
                return bad("value", cause, f"class {c}: {int(wrong.sum())}/{e.numel()} elements of result[{j}] disagree; first at flat {k}: got {gv!r}, float program {ev!r}{note}")

    def compare(self, c, fn, op, xs, fx, aux, e, g, gd, j):
        """Mask of elements violating comparison class `c` (None: nothing to compare)."""
        if c == "exact" or not e.dtype.is_floating_point:
            return ~_eq(gd, e), ""
        e64, g64 = e.to(torch.float64), gd.to(torch.float64)
        finite = torch.isfinite(e64)
        dts = [t.dtype for t in list(fx) + [e] if isinstance(t, torch.Tensor) and t.dtype.is_floating_point]
        eps = max(torch.finfo(d).eps for d in dts)
        tiny = max(torch.finfo(d).smallest_normal * torch.finfo(d).eps for d in dts)  # coarsest subnormal spacing involved
        err = (g64 - e64).abs()
        if c == "ulp":
            # two roundings on either side (scale*code then *s, or cast then multiply); an underflowing
            # scale is off by half a subnormal spacing, amplified by the code it multiplies
            codes = 1.0
            if is_qbytes(g) and g._data.numel():
                codes = g._data.to(torch.float64).abs().nan_to_num(0, 0, 0)
                codes = codes if tuple(codes.shape) == tuple(e64.shape) else codes.max().item()
            # ... and the float program rounds scale*code before multiplying / dividing by s
            sv = abs(float(op["s"]["v"])) if "s" in op else 1.0
            tol = 2 * eps * torch.maximum(e64.abs(), g64.abs()) + (codes + max(sv, 1.0 / sv if sv else 1.0, 1.0) + 1) * tiny
            return finite & ~(err <= tol), f" (tolerance {2}*eps({eps:g}) relative)"
        if c == "step":
            qt, s = g.qtype, g._scale.to(torch.float64).abs()
            if qt.is_floating_point:
                step = s * _f8_spacing(e64 / s, qt.dtype)  # one float8 spacing at that magnitude
                ok_codes = torch.isfinite(g._data.to(torch.float32)) | ~finite
            else:
                step = 0.5 * s
                ok_codes = torch.ones_like(finite)
            tol = step + 6 * eps * torch.maximum(e64.abs(), g64.abs()) + tiny
            return (finite & ~(err <= tol)) | ~ok_codes, f" (output scale {g._scale.to(torch.float64).reshape(-1)[0].item():g})"
        if c == "accum":
            _, call, _, _ = OPS[fn]
            f64 = [t.to(torch.float64) for t in fx]
            a64 = {k: (v.to(torch.float64) if v.dtype.is_floating_point else v) for k, v in aux.items()}
            r64 = as_list(call(f64, op, a64))[j]
            M = as_list(call([t.abs() for t in f64], op, {k: (v.abs() if v.dtype.is_floating_point else v) for k, v in a64.items()}))[j]
            bound = R.raw_bound(M, fx[0].shape[-1], None, e.dtype)
            representable = finite & torch.isfinite(r64) & (r64.abs() + bound < torch.finfo(e.dtype).max)
            return representable & ~((g64 - r64).abs() <= bound), " (vs float64 reference, accumulation bound)"
        raise ValueError(c)

    def cause(self, fn, xs, e, g, gd, wrong):
        """A coarse, computed cause tag for a value disagreement (None when no rule applies)."""
        x = xs[0]
        neg_scale = any(R.is_q(t) and bool((t._scale < 0).any()) for t in xs)
        if fn in INPLACE and self.dest_before is not None and self.dest_before.shape == gd.shape and bool(_eq(gd, self.dest_before).all()):
            return "destination_unchanged"
        if fn == "neg" and is_qbytes(x) and not x.qtype.is_floating_point and tuple(x._data.shape) == tuple(wrong.shape):
            if bool(((x._data == -128) | ~wrong).all()):
                return "saturated_code_-128"
        if fn in ("relu", "lt") and neg_scale:
            return "negative_scale"
        if fn in ("cat", "stack", "lt"):
            sc = [t._scale for t in xs if is_qbytes(t) and t.axis is None]
            if len(sc) == len(xs) and any(z.dtype != sc[0].dtype for z in sc[1:]):
                # equal values, different dtypes (a scale promoted to float32 by a 0-d float32 scalar): the
                # quantized join dequantizes every part in the first scale's dtype, the float program in its own
                return "mixed_scale_dtypes"
            if fn != "lt" and len(sc) == len(xs) and any(not torch.equal(sc[0], z) for z in sc[1:]):
                return "unequal_scales"
        if fn == "where" and is_qbytes(g):
            lim = R.qrange(g.qtype)[1] * g._scale.to(torch.float64).abs()
            if bool(((e.to(torch.float64).abs() > lim) | ~wrong).all()):
                return "other_exceeds_input_range"
        if fn == "linear" and is_qbytes(xs[1]) and xs[1].axis == -1:
            return "weight_scale_along_axis-1"
        if fn in ("linear", "mm", "bmm", "matmul") and is_qbytes(x) and x.axis is not None:
            return "per_axis_input"
        if fn in ("mm", "bmm", "matmul") and is_qbytes(xs[1]) and xs[1].axis == 0 and xs[1].dim() == 2:
            return "right_operand_scale_along_contraction"
        nonfinite = bool((~torch.isfinite(gd.to(torch.float64)) & torch.isfinite(e.to(torch.float64)) & wrong).any())
        if any(R.is_q(t) and bool((t._scale == 0).any()) for t in xs):
            return "zero_scale"
        if fn in ("linear", "mm", "bmm", "matmul") and is_qbytes(x) and is_qbytes(xs[1]) and not nonfinite:
            p = float(x._scale.abs().min()) * float(xs[1]._scale.abs().min())
            if p < torch.finfo(x._scale.dtype).smallest_normal:
                return "scale_product_underflow"  # the product of the two scales is subnormal in the working dtype
        if nonfinite:
            return "nonfinite_result"
        return None

    # ---------------------------------------------------------------- C06
    def snapshot(self, fn, xs):
        x = xs[0]
        if R.is_q(x) and (fn in COPY_OPS or fn == "to_dtype"):
            return {"codes": R.codes_bytes(x), "scale": x._scale.clone(), "cls": opclass(x), "type": type(x), "src": x}
        return None

    def judge_transition(self, fn, op, snap, G, i):
        g = G[0]
        if not R.is_q(g):
            return  # the clause speaks of quantized tensors quanto returns
        try:
            codes = R.codes_bytes(g)
        except Exception:
            return  # an inconsistent result is the invariant's to report
        if codes != snap["codes"]:
            self.violate("C06", "transition", fn, {"issue": "codes_changed", "cls": snap["cls"]}, f"{fn} altered the codes / zero-point of a {snap['cls']}", i)
        # a copy is a copy: what torch defines as returning new memory (clone, deepcopy, a move to another dtype)
        # must not share its payload with the source, or a later in-place write to one alters the codes of the other
        if fn in ("clone", "deepcopy") or (fn == "to_dtype" and (DT[op["dtype"]] != snap["src"].dtype or op.get("copy"))):
            try:
                a = {t.untyped_storage().data_ptr() for n, t in R.inner_items(snap["src"])[0] if not n.endswith("_scale")}
                b = {t.untyped_storage().data_ptr() for n, t in R.inner_items(g)[0] if not n.endswith("_scale")}
                shared = bool(a & b) and g is not snap["src"]
            except Exception:
                shared = False
            if shared:
                self.violate("C06", "transition", fn, {"issue": "payload_shared_with_source", "cls": snap["cls"]}, f"{fn} returned a tensor whose codes live in the source's memory: writing to one alters the other", i)
        if fn == "to_dtype" and R.tbytes(g._scale) != R.tbytes(snap["scale"].to(DT[op["dtype"]])):
            self.violate("C06", "transition", fn, {"issue": "scale_not_cast", "cls": snap["cls"]}, f"scale after to({op['dtype']}) is not the old scale cast to it", i)

    def check_pool(self, fn, i, fresh, aborted):
        """I(q) on every pooled quantized tensor (C06); tensors that break it are quarantined so that
        later steps are judged on their own (under C05 only fresh results are examined, silently)."""
        c06 = self.prop == "C06"
        judged = False
        for slot in sorted(self.pool):
            t = self.pool[slot]
            if not R.is_q(t) or not (c06 or slot in fresh):
                continue
            judged = True
            issues = R.qinvariant(t)
            if issues:
                for issue, det in issues:
                    where = "result" if slot in fresh else "pool"
                    self.violate("C06", "invariant", fn, {"issue": issue, "cls": opclass(t), "where": where, "aborted": True if aborted else None}, f"slot {slot} after {fn}: {det}", i)
                del self.pool[slot]
                self.log.add("quarantined", slot, [x for x, _ in issues])
                self.probe("quarantined_tensor")
        if c06 and judged:
            self.res["judged"] += 1


def execute(plan, prop, keep_log=False):
    return World(plan, prop, keep_log=keep_log).run()


def generate(prop, seed, cfg):
    from . import planner_t

    yield from planner_t.generate(prop, seed, cfg)


def simplifications(plan):
    from . import planner_t

    yield from planner_t.simplifications(plan)
