"""Self-tests of the machinery: smoke, determinism, transparency, sensitivity."""
import os
import subprocess
import sys

from .core import VERIF_DIR


def smoke():
    import importlib

    for m in ("core", "runner", "registry", "shrink"):
        importlib.import_module("qsim." + m)
    print("smoke ok")
    return 0


def main():
    what = sys.argv[1] if len(sys.argv) > 1 else "smoke"
    if what == "smoke":
        return smoke()
    from . import selftest_impl

    return selftest_impl.main(what, sys.argv[2:])


if __name__ == "__main__":
    sys.exit(main())
