"""qsim core: seed streams, hashing, event log, violations, plan/replay files.

Nothing in here imports torch at module import time (the runner's parent
process decides when torch gets loaded), and nothing in a logging path draws
from a PRNG or reads a clock.
"""
import hashlib
import json
import os
import random

VERIF_DIR = os.path.dirname(os.path.dirname(os.path.abspath(__file__)))


def H(*parts) -> int:
    """63-bit hash of the parts (stable across processes and hash seeds)."""
    h = hashlib.sha256()
    for p in parts:
        h.update(repr(p).encode())
        h.update(b"\x1f")
    return int.from_bytes(h.digest()[:8], "big") >> 1


def hexdigest(*parts) -> str:
    h = hashlib.sha256()
    for p in parts:
        if isinstance(p, (bytes, bytearray, memoryview)):
            h.update(bytes(p))
        else:
            h.update(repr(p).encode())
        h.update(b"\x1f")
    return h.hexdigest()[:16]


class Streams:
    """Named PRNG sub-streams of one run seed.

    Adding a draw in one component never shifts another component's stream.
    """

    def __init__(self, seed: int):
        self.seed = seed
        self._cache = {}

    def rng(self, *name) -> random.Random:
        key = tuple(name)
        r = self._cache.get(key)
        if r is None:
            r = self._cache[key] = random.Random(H(self.seed, *name))
        return r

    def sub(self, *name) -> int:
        return H(self.seed, *name)


def run_seed(base: int, prop: str, tier: str, batch: str, index: int) -> int:
    return H("run", base, prop, tier, batch, index)


class InjectedFault(RuntimeError):
    """Raised by the simulator's fault injectors (an ordinary Exception)."""


class InjectedInterrupt(KeyboardInterrupt):
    """Injected BaseException: not caught by `except Exception`."""


class Violation(dict):
    """A property violation observed by an oracle.

    keys: property, oracle, op (op kind), sig (dict of discriminating fields,
    small & JSON), step (index path of the op in the plan), detail (free text).
    The *class* of a violation is (property, oracle, op, sorted sig items).
    """

    @property
    def cls(self):
        return violation_class(self)


def violation_class(v) -> str:
    sig = v.get("sig") or {}
    return json.dumps([v["property"], v["oracle"], v.get("op"), sorted(sig.items())], sort_keys=True)


class EventLog:
    """Append-only log of what happened in a run; hashed for determinism tests."""

    BEHAVIOUR = ("out", "trained", "sd", "lib", "built", "quantized")

    def __init__(self, keep=False):
        self._h = hashlib.sha256()
        self._b = hashlib.sha256()
        self.n = 0
        self.keep = keep
        self.records = []

    def add(self, *rec):
        s = json.dumps(rec, sort_keys=True, default=repr)
        self._h.update(s.encode())
        self._h.update(b"\n")
        if rec and rec[0] in self.BEHAVIOUR:
            # what the system under test did, as opposed to what the harness observed about it
            self._b.update(s.encode())
        self.n += 1
        if self.keep:
            self.records.append(rec)

    def digest(self) -> str:
        return self._h.hexdigest()[:20]

    def behaviour_digest(self) -> str:
        return self._b.hexdigest()[:20]


class RunResult(dict):
    """What one simulated run reports back to the runner (all JSON-able)."""

    @staticmethod
    def new():
        return RunResult(
            violations=[],
            log_digest="",
            steps=0,
            judged=0,
            trace=[],
            trace_hash="",
            states=[],
            faults_armed={},
            faults_fired={},
            probes={},
            skipped=0,
            harness_error=None,
        )


def bump(d, k, n=1):
    d[k] = d.get(k, 0) + n


def save_replay(path, header, plan, prelude=None):
    os.makedirs(os.path.dirname(path), exist_ok=True)
    doc = {"header": header, "plan": plan}
    if prelude:
        doc["prelude"] = prelude  # plans executed first in the same process (process-level history)
    with open(path, "w") as f:
        json.dump(doc, f, indent=1, sort_keys=True)
        f.write("\n")


def load_prelude(path):
    with open(path) as f:
        return json.load(f).get("prelude", [])


def load_replay(path):
    with open(path) as f:
        d = json.load(f)
    return d["header"], d["plan"]


def count_ops(ops):
    n = 0
    for op in ops:
        n += 1
        if "body" in op:
            n += count_ops(op["body"])
    return n


def pin_torch():
    """Ambient torch configuration of every simulated run (idempotent, cheap).

    One intra-op thread (16 workers share 16 cores, and summation order is fixed), and oneDNN off:
    in this sandbox's torch build two oneDNN kernels are defective single-threaded (torch._int_mm with a
    contraction of length 1 and small bfloat16 convolutions return uninitialised memory), which would make
    runs irreproducible for reasons that have nothing to do with quanto. With oneDNN off both quanto and
    the float references use torch's native kernels."""
    import torch

    if torch.get_num_threads() != 1:
        torch.set_num_threads(1)
    if torch.backends.mkldnn.enabled:
        torch.backends.mkldnn.enabled = False
