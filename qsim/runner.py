"""qsim runner: batches of seeded runs on a fork pool, violation triage
(known findings, shrinking, replay verification), evidence files.

Exit contract of `main()`:
  0  property held on everything explored (KNOWN-FINDING lines allowed)
  1  at least one `VIOLATION property=<id> replay=<path>` line was printed
  2  HARNESS-ERROR (timeouts, worker death, exceptions outside operations under test,
     a violation whose replay did not reproduce) and no verified violation
"""
import argparse
import concurrent.futures as cf
import faulthandler
import json
import multiprocessing as mp
import os
import subprocess
import sys
import time
import traceback

from . import core
from .core import VERIF_DIR, bump, violation_class

PYTHON = "/venv/bin/python"


def _env_bootstrap():
    """Pin ambient nondeterminism before torch is imported; re-exec if needed."""
    want = {
        "PYTHONHASHSEED": os.environ.get("QSIM_HASHSEED", "0"),
        "OMP_NUM_THREADS": "1",
        "MKL_NUM_THREADS": "1",
        "PYTHONDONTWRITEBYTECODE": "1",
        "TORCH_EXTENSIONS_DIR": os.path.join(VERIF_DIR, ".cache", "torch_ext"),
    }
    if any(os.environ.get(k) != v for k, v in want.items()) or os.path.realpath(sys.executable) != os.path.realpath(
        PYTHON
    ):
        env = dict(os.environ)
        env.update(want)
        if os.environ.get("QSIM_REEXEC") == "1":
            raise SystemExit("HARNESS-ERROR could not pin environment")
        env["QSIM_REEXEC"] = "1"
        os.execve(PYTHON, [PYTHON, "-m", "qsim"] + sys.argv[1:], env)


def _setup_repo(repo):
    """Make `optimum.quanto` import from `repo`'s working tree."""
    repo = os.path.abspath(repo)
    sys.path.insert(0, repo)
    import torch

    torch.set_num_threads(1)
    import optimum.quanto as q

    got = os.path.dirname(os.path.dirname(os.path.dirname(os.path.abspath(q.__file__))))
    if os.path.realpath(got) != os.path.realpath(repo):
        raise SystemExit(f"HARNESS-ERROR quanto imported from {got}, wanted {repo}")
    return repo


def tree_id(repo):
    try:
        head = subprocess.run(["git", "-C", repo, "rev-parse", "--short", "HEAD"], capture_output=True, text=True).stdout.strip()
        dirty = subprocess.run(["git", "-C", repo, "status", "--porcelain", "--", "optimum"], capture_output=True, text=True).stdout.strip()
        return head + ("+dirty" if dirty else "")
    except Exception:
        return "unknown"


# ----------------------------------------------------------------------------------------------
# worker side


def _get_engine(name):
    import importlib

    return importlib.import_module(f"qsim.engine_{name.lower()}")


def _worker_chunk(task):
    """Execute a chunk of run indices in a process of its own, forked from the (warm) pool worker: the
    process-level history of a run is then exactly the earlier runs of its chunk - bounded and replayable -
    and a crash of the system under test (segfault) kills that child only."""
    import pickle

    r, wfd = os.pipe()
    pid = os.fork()
    if pid == 0:
        code = 0
        try:
            os.close(r)
            data = pickle.dumps(_run_chunk(task))
            with os.fdopen(wfd, "wb") as f:
                f.write(data)
        except BaseException:
            code = 1
        finally:
            os._exit(code)
    os.close(wfd)
    with os.fdopen(r, "rb") as f:
        data = f.read()
    _, status = os.waitpid(pid, 0)
    if not data:
        res = core.RunResult.new()
        res["harness_error"] = f"chunk process died (wait status {status}) while running indices {task[6]} of batch {task[4]}"
        res["batch"], res["index"], res["seed"] = task[4], task[6][0], None
        return [res]
    return pickle.loads(data)


def _run_chunk(task):
    prop, tier, base, engine_name, batch, cfg, indices, keep_plans, per_run_timeout = task
    eng = _get_engine(engine_name)
    out = []
    for idx in indices:
        seed = core.run_seed(base, prop, tier, batch, idx)
        faulthandler.dump_traceback_later(per_run_timeout, exit=True)
        try:
            for plan in eng.generate(prop, seed, cfg):
                try:
                    res = eng.execute(plan, prop)
                except BaseException as e:  # harness exception: anything escaping the executor
                    res = core.RunResult.new()
                    res["harness_error"] = "".join(traceback.format_exception(type(e), e, e.__traceback__))[-3000:]
                res["batch"] = batch
                res["index"] = idx
                res["seed"] = seed
                res["chunk"] = [indices[0], idx]  # process history: the runs of this chunk up to this one
                if res["violations"] or res["harness_error"] or idx < keep_plans:
                    res["plan"] = plan
                out.append(res)
        except BaseException as e:
            res = core.RunResult.new()
            res["harness_error"] = "generate: " + "".join(traceback.format_exception(type(e), e, e.__traceback__))[-3000:]
            res["batch"], res["index"], res["seed"] = batch, idx, seed
            out.append(res)
        finally:
            faulthandler.cancel_dump_traceback_later()
    return out


def _worker_init():
    import torch

    torch.set_num_threads(1)


# ----------------------------------------------------------------------------------------------
# known findings


def load_known_findings():
    path = os.path.join(VERIF_DIR, "known_findings.json")
    if not os.path.exists(path):
        return []
    with open(path) as f:
        d = json.load(f)
    return [e for e in d.get("findings", []) if e.get("status", "open") == "open"]


def match_known(v, known):
    """A known finding matches when property, oracle, op and every field of its `sig` are equal."""
    for k in known:
        if k["property"] != v["property"] or k["oracle"] != v["oracle"]:
            continue
        if k.get("op") is not None and k["op"] != v.get("op"):
            continue
        sig = v.get("sig") or {}
        if all(sig.get(a) == b for a, b in (k.get("sig") or {}).items()):
            return k
    return None


# ----------------------------------------------------------------------------------------------
# parent side


class Aggregate:
    def __init__(self):
        self.evaluations = 0
        self.steps = 0
        self.judged = 0
        self.skipped = 0
        self.nontrivial_hashes = set()
        self.all_hashes = set()
        self.states = set()
        self.faults_armed = {}
        self.faults_fired = {}
        self.probes = {}
        self.samples = []
        self.harness_errors = []
        self.violations = {}  # class -> (first result, violation, count)
        self.per_batch = {}
        self.first_seed = None
        self.last_seed = None

    def add(self, res, fault_batch):
        self.evaluations += 1
        b = self.per_batch.setdefault(res["batch"], {"runs": 0, "judged_runs": 0, "steps": 0, "violating_runs": 0})
        b["runs"] += 1
        b["steps"] += res["steps"]
        self.steps += res["steps"]
        self.judged += res["judged"]
        self.skipped += res["skipped"]
        self.all_hashes.add(res["trace_hash"])
        fired = sum(res["faults_fired"].values())
        nontrivial = res["judged"] > 0 and (fired > 0 or not fault_batch)
        if nontrivial:
            self.nontrivial_hashes.add(res["trace_hash"])
            b["judged_runs"] += 1
        self.states.update(res["states"])
        for k, n in res["faults_armed"].items():
            bump(self.faults_armed, k, n)
        for k, n in res["faults_fired"].items():
            bump(self.faults_fired, k, n)
        for k, n in res["probes"].items():
            bump(self.probes, k, n)
        if self.first_seed is None:
            self.first_seed = res["seed"]
        self.last_seed = res["seed"]
        if res.get("plan") is not None and len(self.samples) < 3 and not res["violations"] and nontrivial:
            self.samples.append({"seed": res["seed"], "batch": res["batch"], "ops": res["plan"]["ops"], "outcomes": res.get("trace", [])[:60]})
        if res["harness_error"]:
            self.harness_errors.append((res["batch"], res["index"], res["seed"], res["harness_error"]))
        if res["violations"]:
            b["violating_runs"] += 1
        for v in res["violations"]:
            c = violation_class(v)
            if c not in self.violations:
                self.violations[c] = [res, v, 0]
            self.violations[c][2] += 1


def run_batches(prop, tier, base, spec, workers, wall_cap, runs_scale=1.0):
    """Run all batches of a check; returns Aggregate."""
    agg = Aggregate()
    ctx = mp.get_context("fork")
    t0 = time.time()
    tasks = []
    for batch in spec["batches"][tier]:
        n = max(1, int(batch["runs"] * runs_scale))
        chunk = batch.get("chunk", 4)
        idxs = list(range(n))
        for i in range(0, n, chunk):
            tasks.append(
                (prop, tier, base, batch.get("engine", spec["engine"]), batch["name"], batch["cfg"], idxs[i : i + chunk], 3, batch.get("run_timeout", 300))
            )
    fault_batches = {b["name"]: bool(b.get("faults")) for b in spec["batches"][tier]}
    # interleave batches so that a wall cap cuts all of them proportionally
    tasks.sort(key=lambda t: (t[6][0], t[4]))
    timed_out = False
    with cf.ProcessPoolExecutor(max_workers=workers, mp_context=ctx, initializer=_worker_init) as ex:
        futs = {ex.submit(_worker_chunk, t): t for t in tasks}
        try:
            for fut in cf.as_completed(list(futs), timeout=wall_cap):
                t = futs.pop(fut)  # drop the reference: results of big batches must not pile up
                try:
                    for res in fut.result():
                        agg.add(res, fault_batches[res["batch"]])
                except cf.process.BrokenProcessPool as e:
                    agg.harness_errors.append((t[4], t[6][0], None, f"worker died: {e}"))
                except Exception as e:
                    agg.harness_errors.append((t[4], t[6][0], None, f"chunk failed: {e!r}"))
        except cf.TimeoutError:
            timed_out = True
            for f in futs:
                f.cancel()
            for p in list(getattr(ex, "_processes", {}).values()):
                try:
                    p.terminate()
                except Exception:
                    pass
            agg.harness_errors.append(("*", -1, None, f"wall cap {wall_cap}s reached before all runs finished"))
    agg.wall = time.time() - t0
    agg.timed_out = timed_out
    return agg


def _replay_in_fresh_process(path, prop, repo):
    cmd = [PYTHON, "-m", "qsim", prop, "--replay", path, "--repo", repo, "--no-evidence"]
    env = dict(os.environ)
    env.pop("QSIM_REEXEC", None)
    p = subprocess.run(cmd, cwd=VERIF_DIR, env=env, capture_output=True, text=True, timeout=600)
    return p.returncode, p.stdout + p.stderr


def triage(prop, tier, base, spec, agg, repo, do_shrink=True):
    """Known-finding matching, shrinking, replay verification. Returns (lines, n_viol, n_known, n_unreproduced)."""
    from . import shrink

    known = load_known_findings()
    lines = []
    n_viol = n_known = n_unrep = 0
    known_hits = {}
    report = []
    max_reported = spec.get("max_reported", 12)
    max_shrunk = spec.get("max_shrunk", 4)
    unknown = []
    # triage in a stable order: earliest run first
    for c, (res, v, count) in sorted(agg.violations.items(), key=lambda kv: (kv[1][0]["batch"], kv[1][0]["index"], kv[0])):
        k = match_known(v, known)
        if k is not None:
            known_hits.setdefault(k["id"], [k, 0, v])
            known_hits[k["id"]][1] += count
            n_known += 1
        else:
            unknown.append((c, res, v, count))
    if len(unknown) > max_reported:
        lines.append(f"NOTE {len(unknown)} unlisted violation classes; replaying and reporting the first {max_reported} (by run index), the rest are listed in the evidence file")
    agg.unreported = [c for c, _, _, _ in unknown[max_reported:]]
    for ci, (c, res, v, count) in enumerate(unknown[:max_reported]):
        plan = res["plan"]
        small = plan
        eng = _get_engine(plan.get("engine", spec["engine"]))
        if do_shrink and ci < max_shrunk:
            try:
                small = shrink.shrink(eng, plan, prop, c, budget_s=spec.get("shrink_budget", 60))
            except Exception as e:
                lines.append(f"NOTE shrink failed for {c}: {e!r}")
        path = os.path.join(VERIF_DIR, "replays", f"{prop}-{res['seed']}-{core.hexdigest(c)[:6]}.json")
        header = {
            "property": prop,
            "engine": plan.get("engine", spec["engine"]),
            "seed": res["seed"],
            "batch": res["batch"],
            "index": res["index"],
            "violation_class": c,
            "violation": {a: v.get(a) for a in ("property", "oracle", "op", "sig", "detail")},
            "tree": tree_id(repo),
            "ops_before_shrink": core.count_ops(plan["ops"]),
            "ops_after_shrink": core.count_ops(small["ops"]),
        }
        core.save_replay(path, header, small)
        rc, out = _replay_in_fresh_process(path, prop, repo)
        reproduced = rc == 1 and "REPRODUCED" in out
        if not reproduced and small is not plan:
            # fall back to the unshrunk plan
            header["ops_after_shrink"] = header["ops_before_shrink"]
            core.save_replay(path, header, plan)
            rc, out = _replay_in_fresh_process(path, prop, repo)
            reproduced = rc == 1 and "REPRODUCED" in out
        if not reproduced and res.get("chunk") and res["chunk"][1] > res["chunk"][0]:
            # process-level history: state kept by the library across objects (a module-level cache, a class
            # attribute) makes a run depend on the runs executed before it in the same process. Replay the
            # earlier runs of its chunk first (their own verdicts are ignored).
            cfg = [b for b in spec["batches"][tier] if b["name"] == res["batch"]][0]["cfg"]
            prelude = []
            for j in range(res["chunk"][0], res["chunk"][1]):
                prelude.extend(eng.generate(prop, core.run_seed(base, prop, tier, res["batch"], j), cfg))
            header["ops_after_shrink"] = header["ops_before_shrink"]
            header["prelude_runs"] = len(prelude)
            core.save_replay(path, header, plan, prelude)
            rc, out = _replay_in_fresh_process(path, prop, repo)
            reproduced = rc == 1 and "REPRODUCED" in out
            if reproduced:
                lines.append(f"NOTE class below only reproduces after the {len(prelude)} earlier runs of its process (state kept across objects); they are part of the replay file")
        if reproduced:
            n_viol += 1
            lines.append(f"VIOLATION property={prop} replay={path}")
            lines.append(f"  class={c} count={count} detail={str(v.get('detail'))[:400]}")
        else:
            n_unrep += 1
            lines.append(f"HARNESS-ERROR unreproduced violation class={c} replay={path} rc={rc}")
            lines.append("  " + out[-800:].replace("\n", "\n  "))
        report.append({"class": c, "count": count, "replay": path, "reproduced": reproduced})
    for kid, (k, cnt, v) in sorted(known_hits.items()):
        lines.append(f"KNOWN-FINDING: property={prop} {k['id']}: {k['text']} (hit by {cnt} violation classes-instances this run)")
    agg.known_hits = {kid: cnt for kid, (k, cnt, v) in known_hits.items()}
    agg.violation_report = report
    return lines, n_viol, n_known, n_unrep


def write_evidence(prop, tier, base, spec, agg, n_viol, repo, path=None):
    eng = _get_engine(spec["engine"])
    runs_per_hour = int(agg.evaluations / max(agg.wall, 1e-9) * 3600)
    cov = {
        "evaluations": agg.evaluations,
        "distinct_nontrivial": len(agg.nontrivial_hashes),
        "rule": spec["rule"],
        "samples": agg.samples[:3] if agg.samples else [{"note": "no violation-free nontrivial run was kept as a sample"}],
        "exhaustive": False,
        "distinct_interleavings_all": len(agg.all_hashes),
        "distinct_states": len(agg.states),
        "logical_steps": agg.steps,
        "judged_steps": agg.judged,
        "skipped_steps": agg.skipped,
        "runs_per_hour": runs_per_hour,
        "seeds": {"base": base, "first_run_seed": agg.first_seed, "last_run_seed": agg.last_seed, "derivation": "H('run', base, property, tier, batch, index)"},
        "simulated_time": "n/a - the system under test has no clock or timer; logical steps are reported instead",
        "faults_armed": dict(sorted(agg.faults_armed.items())),
        "faults_fired": dict(sorted(agg.faults_fired.items())),
        "probes": dict(sorted(agg.probes.items())),
        "per_batch": agg.per_batch,
        "components": eng.components(prop),
        "known_findings_hit": getattr(agg, "known_hits", {}),
        "violation_report": getattr(agg, "violation_report", []),
        "violation_classes_not_replayed": getattr(agg, "unreported", []),
        "harness_errors": len(agg.harness_errors),
        "tree": tree_id(repo),
        "workers": spec.get("_workers"),
    }
    ev = {
        "property_id": prop,
        "tier": tier,
        "seed": base,
        "level": spec["level"],
        "coverage": cov,
        "assumptions": spec.get("assumptions", []),
        "wall_s": round(agg.wall, 2),
        "violations": n_viol,
    }
    path = path or os.path.join(VERIF_DIR, "evidence", f"{prop}.json")
    os.makedirs(os.path.dirname(path), exist_ok=True)
    tmp = path + ".tmp"
    with open(tmp, "w") as f:
        json.dump(ev, f, indent=1, sort_keys=True, default=repr)
        f.write("\n")
    os.replace(tmp, path)
    return path


def do_replay(prop, spec, path):
    header, plan = core.load_replay(path)
    eng = _get_engine(plan.get("engine", header.get("engine", spec["engine"])))
    for pre in core.load_prelude(path):
        eng.execute(pre, prop)  # process history only; not judged
    res = eng.execute(plan, prop)
    want = header.get("violation_class")
    got = sorted({violation_class(v) for v in res["violations"]})
    print(f"replay {path}: steps={res['steps']} log={res['log_digest']} violations={len(res['violations'])}")
    for v in res["violations"]:
        print(f"  {violation_class(v)} step={v.get('step')} detail={str(v.get('detail'))[:600]}")
    if res["harness_error"]:
        print("HARNESS-ERROR during replay:\n" + res["harness_error"])
        return 2
    if want is None:
        if got:
            print(f"VIOLATION property={prop} replay={path}")
            return 1
        return 0
    if want in got:
        print(f"REPRODUCED class={want}")
        print(f"VIOLATION property={prop} replay={path}")
        return 1
    print(f"NOT-REPRODUCED wanted={want}")
    return 0 if not got else 3


def main(argv=None):
    _env_bootstrap()
    from .registry import PROPS

    ap = argparse.ArgumentParser(prog="check")
    ap.add_argument("prop")
    ap.add_argument("--tier", default=os.environ.get("VERIF_TIER", "quick"), choices=["quick", "thorough"])
    ap.add_argument("--seed", type=int, default=int(os.environ.get("VERIF_SEED", "0") or 0))
    ap.add_argument("--repo", default=os.environ.get("QSIM_REPO", "/repo"))
    ap.add_argument("--replay")
    ap.add_argument("--runs-scale", type=float, default=float(os.environ.get("QSIM_RUNS_SCALE", "1")))
    ap.add_argument("--workers", type=int, default=int(os.environ.get("QSIM_WORKERS", "0") or 0))
    ap.add_argument("--no-evidence", action="store_true")
    ap.add_argument("--no-shrink", action="store_true")
    ap.add_argument("--evidence-path")
    ap.add_argument("--digests", help="write per-run log digests to this file (determinism self-test)")
    ap.add_argument("--only-batch")
    args = ap.parse_args(argv)
    prop = args.prop.upper()
    if prop not in PROPS:
        print(f"HARNESS-ERROR unknown or not-applicable property {prop}")
        return 2
    spec = dict(PROPS[prop])
    repo = _setup_repo(args.repo)
    eng = _get_engine(spec["engine"])
    if hasattr(eng, "prepare"):
        eng.prepare(prop, repo)
    if args.replay:
        return do_replay(prop, spec, args.replay)
    workers = args.workers or min(16, os.cpu_count() or 1)
    spec["_workers"] = workers
    if args.only_batch:
        spec["batches"] = {t: [b for b in bs if b["name"] == args.only_batch] for t, bs in spec["batches"].items()}
    print(f"check {prop} tier={args.tier} VERIF_SEED={args.seed} engine={spec['engine']} workers={workers} repo={repo} tree={tree_id(repo)}")
    sys.stdout.flush()
    wall_cap = spec["wall_cap"][args.tier]
    import shutil
    import tempfile

    scratch_root = tempfile.mkdtemp(prefix="qsimroot-")
    os.environ["VERIF_SCRATCH"] = scratch_root
    try:
        agg = run_batches(prop, args.tier, args.seed, spec, workers, wall_cap, args.runs_scale)
    finally:
        shutil.rmtree(scratch_root, ignore_errors=True)
        os.environ.pop("VERIF_SCRATCH", None)
    if args.digests:
        pass  # digests are collected by selftest through execute() directly
    lines, n_viol, n_known, n_unrep = triage(prop, args.tier, args.seed, spec, agg, repo, do_shrink=not args.no_shrink)
    agg.wall = max(agg.wall, 1e-6)
    if not args.no_evidence:
        p = write_evidence(prop, args.tier, args.seed, spec, agg, n_viol, repo, args.evidence_path)
    for ln in lines:
        print(ln)
    print(
        f"summary {prop}: runs={agg.evaluations} distinct_nontrivial={len(agg.nontrivial_hashes)} states={len(agg.states)} "
        f"steps={agg.steps} judged={agg.judged} faults_fired={sum(agg.faults_fired.values())} wall={agg.wall:.1f}s "
        f"violations={n_viol} known={n_known} harness_errors={len(agg.harness_errors)}"
    )
    if n_viol:
        return 1
    if agg.harness_errors or n_unrep:
        for he in agg.harness_errors[:5]:
            print(f"HARNESS-ERROR batch={he[0]} index={he[1]} seed={he[2]}\n  " + str(he[3])[-1500:].replace("\n", "\n  "))
        return 2
    return 0
