"""qsim - deterministic simulation with fault injection for optimum-quanto."""
