"""Registry entries of engine K (C04); merged into registry.PROPS / MANIFEST_CHECKS by the lead."""
# same three lines as registry.ASSUME_COMMON; repeated so that this module does not import registry (no import cycle)
ASSUME_COMMON = [
    "torch (2.x CPU kernels, module hooks, mode stacks, autograd) and safetensors behave as documented; they are the trusted base",
    "single caller thread; no CUDA/MPS device in the sandbox (device moves are cpu->cpu)",
    "a clean batch is evidence from a seeded search over histories and fault positions, not a proof",
]

RULE_K = (
    "one evaluation = one simulated run: a seeded plan of <= 30 operations (pack, unpack through quanto:: / quanto_py:: / quanto_ext::, "
    "aten ops / detach / to / flatten-unflatten on packed tensors, nested disable_extensions blocks left normally or by an injected "
    "exception, arm/heal of extension faults) executed against the real quanto code and, when it builds, the real C++ kernel, with "
    "every returned tensor compared bit for bit with an independent reference codec and the route judged after every call. "
    "distinct = distinct hash of the sequence (op kind, abstract route state (switch, extension state, block depth, last route) before, "
    "outcome incl. the route taken by every entry point); non-trivial = the run executed at least one judged call and, in the fault "
    "batch, at least one armed extension fault actually fired (the failing proxy or the failing load was really called). "
    "Every run carries a tensor holding all 256 byte values; shapes/residues are ordinary input coverage riding on the workload "
    "(probes residue_b<bits>_r<rows mod 8/bits>), not a simulation result."
)

PROPS_K = {
    "C04": {
        "engine": "K",
        "level": "exploration",
        "rule": RULE_K,
        "assumptions": ASSUME_COMMON
        + [
            "numpy integer arithmetic (the reference codec) and torch.equal-level tensor->numpy conversion are trusted",
            "the C++ kernel is the one built from the working tree by quanto's own Extension.lib into /verif/.cache/cpp-<sha>; if the sandbox cannot build it the check says so (probe real_cpp_unavailable, components) and explores the remaining states",
            "failing extension states are proxies on ext._lib, except unbuildable_real which lets torch's cpp_extension.load fail for real",
            "what _ext_enabled reads between the exit of an inner and of an outer disable_extensions block is not judged",
            "PackedTensor.to(<non-uint8 dtype>) raising its explicit ValueError is a documented refusal, counted (probe to_int32_refused_as_documented), not judged",
        ],
        "wall_cap": {"quick": 2400, "thorough": 10800},
        "shrink_budget": 45,
        "batches": {
            "quick": [
                {"name": "nofault", "runs": 25000, "cfg": {"faults": False}, "faults": False, "chunk": 50, "run_timeout": 120},
                {"name": "faults", "runs": 45000, "cfg": {"faults": True}, "faults": True, "chunk": 50, "run_timeout": 120},
            ],
            "thorough": [
                {"name": "nofault", "runs": 380000, "cfg": {"faults": False}, "faults": False, "chunk": 200, "run_timeout": 120},
                {"name": "faults", "runs": 650000, "cfg": {"faults": True}, "faults": True, "chunk": 200, "run_timeout": 120},
            ],
        },
    },
}

MANIFEST_CHECKS_K = {
    "C04": {
        "text": "Seeded search over histories of the unpack route machinery: the switch (disable_extensions blocks, nested, left normally or by an injected exception) x the extension state (real C++ kernel built from the working tree, unbuildable, no kernel, failing on chosen calls then healed). After every call through quanto::unpack, quanto_py::unpack, quanto_ext::unpack, PackedTensor.pack/unpack, aten ops on packed tensors, detach/to/flatten-unflatten: bit equality with an independent numpy reference codec (all 256 byte values in every run, every residue of rows mod 8/bits, contiguous and strided views of rank 1-4; in about one run in sixteen a 40-650 KiB payload unpacked with 2-4 intra-op threads), payload density, fallback really happening with a warning, no extension call inside a disable block, switch restored after the outermost exit. Fault-free and fault batches are separate. Evidence over the explored histories and inputs, not proof.",
        "design_ref": "DESIGN.md section 4 (Engine K), 5 (C04), 3.3 (ext_state, switch), 3.4 (bit codec)",
        "note": "Trusted: torch dispatcher/warnings, numpy. The three failing extension states are proxies on ext._lib (one variant fails for real through cpp_extension.load); CUDA/MPS kernels are not run. If the C++ kernel cannot be built the check reports it (components, probe real_cpp_unavailable) instead of failing. First use of a source hash adds one ~46 s build under /verif/.cache.",
        "technique": "deterministic simulation with fault injection: seeded history search over route states, replayable plans, bit-exact reference codec",
    },
}
