"""selftest sensitivity: apply each committed mutant (mutants/*.patch, seeded/*/patch.diff) to a scratch
copy of the repository outside /repo and /verif, run the quick check of its property against the copy,
and expect a VIOLATION. The copy is removed afterwards."""
import json
import os
import shutil
import subprocess
import sys
import tempfile
import time

from .core import VERIF_DIR


def collect(names):
    out = []
    idx = json.load(open(os.path.join(VERIF_DIR, "mutants", "index.json")))
    for m in idx:
        out.append((m["name"], m["property"], os.path.join(VERIF_DIR, "mutants", m["name"] + ".patch")))
    seeded = os.path.join(VERIF_DIR, "seeded")
    if os.path.isdir(seeded):
        for d in sorted(os.listdir(seeded)):
            meta = os.path.join(seeded, d, "meta.json")
            if os.path.exists(meta):
                mj = json.load(open(meta))
                out.append(("seeded/" + d, mj["property"], os.path.join(seeded, d, "patch.diff")))
    if names:
        out = [m for m in out if any(n in m[0] or n == m[1] for n in names)]
    return out


def run_one(name, prop, patch, scale, repo="/repo"):
    tmp = tempfile.mkdtemp(prefix="qsim-mut-")
    copy = os.path.join(tmp, "repo")
    try:
        subprocess.run(["git", "-C", repo, "worktree", "add", "-q", "--detach", copy, "HEAD"], check=True, capture_output=True)
        p = subprocess.run(["git", "-C", copy, "apply", patch], capture_output=True, text=True)
        if p.returncode:
            return "PATCH-FAILED", p.stderr[-300:], 0.0
        t0 = time.time()
        env = dict(os.environ)
        env.pop("QSIM_REEXEC", None)
        p = subprocess.run([os.path.join(VERIF_DIR, "check"), prop, "--repo", copy, "--runs-scale", str(scale), "--no-evidence", "--no-shrink"], cwd=VERIF_DIR, env=env, capture_output=True, text=True, timeout=3600)
        dt = time.time() - t0
        viol = [l for l in p.stdout.splitlines() if l.startswith("VIOLATION")]
        classes = [l.strip()[:260] for l in p.stdout.splitlines() if l.startswith("  class=")]
        if p.returncode == 1 and viol:
            return "CAUGHT", "; ".join(classes[:2]), dt
        return "MISSED" if p.returncode == 0 else f"RC{p.returncode}", (p.stdout + p.stderr)[-400:], dt
    finally:
        subprocess.run(["git", "-C", repo, "worktree", "remove", "--force", copy], capture_output=True)
        shutil.rmtree(tmp, ignore_errors=True)


def main(args):
    scale = 0.25
    names = []
    for a in args:
        if a.startswith("--scale="):
            scale = float(a.split("=")[1])
        else:
            names.append(a)
    muts = collect(names)
    missed = 0
    rows = []
    for name, prop, patch in muts:
        status, info, dt = run_one(name, prop, patch, scale)
        rows.append({"mutant": name, "property": prop, "status": status, "wall_s": round(dt, 1), "info": info})
        print(f"{status:8s} {prop} {name} ({dt:.0f}s) {info[:200]}")
        sys.stdout.flush()
        if status != "CAUGHT":
            missed += 1
    os.makedirs(os.path.join(VERIF_DIR, "evidence"), exist_ok=True)
    with open(os.path.join(VERIF_DIR, "evidence", "sensitivity.json"), "w") as f:
        json.dump({"scale": scale, "results": rows}, f, indent=1)
    print(f"sensitivity: {len(muts) - missed}/{len(muts)} mutants caught")
    return 1 if missed else 0
