"""Sweep mode (C13): for a seeded short workload with one fault-bearing forward inside calibration
blocks, enumerate *every* module-level and aten-level fault position of that forward and a seeded
sample of line-level positions; one plan per position."""
import copy

from . import planner_l
from .core import Streams


def _find_marked(ops):
    for op in ops:
        if op.get("sweep"):
            return op
        if "body" in op:
            r = _find_marked(op["body"])
            if r is not None:
                return r
    return None


def plan_sweep_base(P):
    r = P.rng
    ops = []
    a = P.new_dep(ops)
    if r.random() < 0.3:
        P.emit(ops, {"op": "freeze", "dep": a.id})
    if r.random() < 0.5:
        P.forward(ops, a, fresh=True, fault=False)
    other = P.new_dep(ops) if r.random() < 0.4 else None
    depth = r.choice([1, 1, 2, 3])

    def body(bops, d):
        if r.random() < 0.5:
            P.forward(bops, a, fault=False)
        if d < depth:
            if r.random() < 0.3:
                op = P.emit(bops, {"op": "noext", "body": []})
                body(op["body"], d)
            else:
                P.calib(bops, body, d, inst="fresh")
        else:
            op = P.forward(bops, a, fault=False)
            op["sweep"] = True
            op["sweep_paths"] = list(a.qpaths)
            if r.random() < 0.3:
                op["catch"] = True
            if r.random() < 0.5:
                P.forward(bops, other or a, fault=False)

    P.calib(ops, body, 0)
    P.forward(ops, a, fresh=False, fault=False)
    if other is not None:
        P.forward(ops, other, fresh=True, fault=False)
    return ops


planner_l.PROFILES["C13_sweep"] = plan_sweep_base


def generate(prop, seed, cfg):
    from . import engine_l

    cfg2 = dict(cfg)
    cfg2["profile"] = "C13_sweep"
    cfg2["faults"] = False
    base = planner_l.make_plan(prop, seed, cfg2)
    base["cfg"] = cfg
    marked = _find_marked(base["ops"])
    if marked is None:
        yield base
        return
    S = Streams(seed)
    r = S.rng("sweep")
    counts = {}
    for kind in ("aten", "line"):
        probe = copy.deepcopy(base)
        m = _find_marked(probe["ops"])
        m["fault"] = {"kind": kind, "k": None, "count": True}
        res = engine_l.execute(probe, prop)
        counts[kind] = res.get("points", {}).get(kind, 0)
    positions = []
    exc_kinds = ["fault", "interrupt"]
    n_aten = min(counts["aten"], cfg.get("max_aten", 400))
    for k in range(1, n_aten + 1):
        positions.append({"kind": "aten", "k": k, "exc": exc_kinds[k % 7 == 0]})
    for path in marked.get("sweep_paths", []):
        for phase, ns in (("pre", [1]), ("post", [1]), ("inner", [1, 2, 3])):
            for n in ns:
                positions.append({"kind": "module", "path": path, "phase": phase, "n": n, "exc": exc_kinds[r.random() < 0.15]})
    nl = min(cfg.get("lines", 32), counts["line"])
    if counts["line"] > 0:
        for k in sorted(r.sample(range(1, counts["line"] + 1), nl)):
            positions.append({"kind": "line", "k": k, "exc": exc_kinds[r.random() < 0.3]})
    for pos in positions:
        plan = copy.deepcopy(base)
        m = _find_marked(plan["ops"])
        m["fault"] = pos
        plan["sweep_position"] = pos
        plan["sweep_counts"] = counts
        yield plan
