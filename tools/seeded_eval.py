#!/venv/bin/python
"""Confirm a seeded change (patch + demo) independently and run the property's check against it.

usage: tools/seeded_eval.py <PROP> <change.diff> <demo.py> <name> [--skip-tests] [--scale X]
Writes /verif/seeded/<name>/{patch.diff, demo.py, result.json}; meta.json is written by hand afterwards."""
import json
import os
import shutil
import subprocess
import sys
import tempfile
import time

VERIF = os.path.dirname(os.path.dirname(os.path.abspath(__file__)))
PY = "/venv/bin/python"


def run(cmd, cwd, env=None, timeout=3600):
    e = dict(os.environ)
    e.pop("QSIM_REEXEC", None)
    if env:
        e.update(env)
    p = subprocess.run(cmd, cwd=cwd, env=e, capture_output=True, text=True, timeout=timeout)
    return p.returncode, p.stdout + p.stderr


def failing_ids(out):
    return sorted(l.split()[1] for l in out.splitlines() if l.startswith("FAILED ") or l.startswith("ERROR "))


def main():
    prop, diff, demo, name = sys.argv[1:5]
    skip_tests = "--skip-tests" in sys.argv
    scale = "1"
    for a in sys.argv:
        if a.startswith("--scale="):
            scale = a.split("=")[1]
    tmp = tempfile.mkdtemp(prefix="seedeval-")
    wt = os.path.join(tmp, "repo")
    res = {"property": prop, "name": name}
    try:
        subprocess.run(["git", "-C", "/repo", "worktree", "add", "-q", "--detach", wt, "HEAD"], check=True)
        rc, out = run(["git", "-C", wt, "apply", diff], "/")
        res["applies"] = rc == 0
        if rc:
            res["apply_error"] = out[-500:]
            return res
        extra = {"PATH": "/venv/bin:" + os.environ.get("PATH", "")} if prop == "C04" else {}
        rc, out = run([PY, demo], wt, dict(extra, PYTHONPATH=wt), 1800)
        res["demo_with_change_rc"] = rc
        res["demo_with_change_tail"] = out[-300:]
        rc, out = run([PY, demo], "/repo", dict(extra, PYTHONPATH="/repo"), 1800)
        res["demo_without_change_rc"] = rc
        rc, out = run([PY, "-c", "import optimum.quanto"], wt, {"PYTHONPATH": wt})
        res["imports"] = rc == 0
        if not skip_tests:
            t0 = time.time()
            rc, out = run([PY, "-m", "pytest", "-q", "-p", "no:cacheprovider", "--timeout=900", "-rfE", "test"], wt, {"PYTHONPATH": wt}, 5400)
            res["tests_wall_s"] = round(time.time() - t0)
            res["tests_summary"] = [l for l in out.splitlines() if " passed" in l or " failed" in l][-1:]
            fails = failing_ids(out)
            base = json.load(open("/root/.vp/BASELINE.json"))
            always = set(x.replace("::", "::", 1) for x in base.get("always_fail", []))
            # ids in -rf output are path::name; baseline ids are module::name
            norm = lambda t: t.replace("/", ".").replace(".py::", "::")
            res["new_failures"] = sorted(f for f in fails if norm(f) not in always)
        t0 = time.time()
        rc, out = run([os.path.join(VERIF, "check"), prop, "--repo", wt, "--no-evidence", "--runs-scale", scale, "--seed", "0"], VERIF, None, 7200)
        res["check_rc"] = rc
        res["check_wall_s"] = round(time.time() - t0)
        res["check_violation_lines"] = [l for l in out.splitlines() if l.startswith("VIOLATION")][:6]
        res["check_classes"] = [l.strip()[:300] for l in out.splitlines() if l.startswith("  class=")][:6]
        res["check_summary"] = [l for l in out.splitlines() if l.startswith("summary")]
        res["caught"] = rc == 1 and bool(res["check_violation_lines"])
        # keep the minimised replays of the first classes
        d = os.path.join(VERIF, "seeded", name)
        os.makedirs(d, exist_ok=True)
        shutil.copy(diff, os.path.join(d, "patch.diff"))
        shutil.copy(demo, os.path.join(d, "demo.py"))
        for l in res["check_violation_lines"][:2]:
            rp = l.split("replay=")[1].strip()
            if os.path.exists(rp):
                shutil.copy(rp, os.path.join(d, os.path.basename(rp)))
        return res
    finally:
        subprocess.run(["git", "-C", "/repo", "worktree", "remove", "--force", wt], capture_output=True)
        shutil.rmtree(tmp, ignore_errors=True)
        d = os.path.join(VERIF, "seeded", name)
        os.makedirs(d, exist_ok=True)
        with open(os.path.join(d, "result.json"), "w") as f:
            json.dump(res, f, indent=1)
        print(json.dumps(res, indent=1))


if __name__ == "__main__":
    main()
