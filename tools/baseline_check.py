#!/venv/bin/python
"""Runs the repository's pinned baseline command (guard off - there is none) and compares the set of
passing tests with BASELINE.json's stable_pass. Exit 0 iff every stable test still passes."""
import json
import os
import subprocess
import sys
import tempfile
import xml.etree.ElementTree as ET

b = json.load(open("/root/.vp/BASELINE.json"))
out = os.path.join(tempfile.mkdtemp(prefix="baseline-"), "junit.xml")
cmd = b["cmd"].replace("<file>", out)
print(cmd)
subprocess.run(cmd, shell=True, stdout=subprocess.DEVNULL, stderr=subprocess.DEVNULL)
passed, failed = set(), set()
for tc in ET.parse(out).getroot().iter("testcase"):
    tid = f"{tc.get('classname')}::{tc.get('name')}"
    bad = any(ch.tag in ("failure", "error") for ch in tc)
    skipped = any(ch.tag == "skipped" for ch in tc)
    if bad:
        failed.add(tid)
    elif not skipped:
        passed.add(tid)
stable = set(b["stable_pass"])
missing = sorted(stable - passed)
print(f"passed={len(passed)} failed={len(failed)} stable={len(stable)} stable_not_passing={len(missing)}")
for m in missing[:40]:
    print("  NOT PASSING:", m)
newfail = sorted(failed - set(b.get("always_fail", [])))
print("failed outside always_fail:", len(newfail), newfail[:10])
os.remove(out)
sys.exit(1 if missing else 0)
