#!/venv/bin/python
"""Print the DESIGN 0.3 table (measured figures) from the evidence files the checks wrote."""
import json
import os

VERIF = os.path.dirname(os.path.dirname(os.path.abspath(__file__)))


def fmt(n):
    n = int(n)
    if n >= 1_000_000:
        return f"{n / 1e6:.2f} M"
    return f"{n:,}".replace(",", " ")


def main():
    print("| check | tier | runs | distinct non-trivial | abstract states | logical steps | faults fired | known findings met | wall | runs/hour |")
    print("|---|---|---|---|---|---|---|---|---|---|")
    for pid in ["C04", "C05", "C06", "C08", "C09", "C10", "C11", "C12", "C13"]:
        p = os.path.join(VERIF, "evidence", pid + ".json")
        if not os.path.exists(p):
            continue
        e = json.load(open(p))
        c = e["coverage"]
        fired = sum(c["faults_fired"].values()) if isinstance(c.get("faults_fired"), dict) else c.get("faults_fired", 0)
        known = sum(c["known_findings_hit"].values()) if isinstance(c.get("known_findings_hit"), dict) else 0
        print(f"| {pid} | {e['tier']} | {fmt(c['evaluations'])} | {fmt(c['distinct_nontrivial'])} | {fmt(c['distinct_states'])} | {fmt(c['logical_steps'])} | {fmt(fired) if fired else '0 (no fault batch)'} | {fmt(known)} | {e['wall_s']:.0f} s | {fmt(c['runs_per_hour'])} |")


if __name__ == "__main__":
    main()
