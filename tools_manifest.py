#!/venv/bin/python
"""Regenerates MANIFEST.json from qsim/registry.py (single source of truth for what is claimed)."""
import json
import os
import sys

sys.path.insert(0, os.path.dirname(os.path.abspath(__file__)))
from qsim.registry import MANIFEST_CHECKS, NOT_APPLICABLE, PROPS  # noqa: E402

BASELINE = json.load(open("/root/.vp/BASELINE.json"))["cmd"] if os.path.exists("/root/.vp/BASELINE.json") else ""

checks = []
for pid in sorted(PROPS):
    m = MANIFEST_CHECKS[pid]
    checks.append(
        {
            "property_id": pid,
            "quick_cmd": f"./check {pid} --tier quick",
            "thorough_cmd": f"./check {pid} --tier thorough",
            "evidence_file": f"/verif/evidence/{pid}.json",
            "replay_cmd_template": f"./check {pid} --replay {{path}}",
            "engine": "qsim-" + PROPS[pid]["engine"],
            "level_claimed": {"category": PROPS[pid]["level"], "text": m["text"], "design_ref": m["design_ref"]},
            "level_note": m["note"],
            "technique": m["technique"],
        }
    )
manifest = {
    "version": 1,
    "setup_cmd": "/venv/bin/python -c \"import hypothesis, torch, safetensors\" && /venv/bin/python -m compileall -q qsim && ./selftest smoke",
    "hooks": {
        "guard": "QUANTO_VERIF",
        "enable": "no hook is compiled into /repo: every seam used (torch module hooks, TorchDispatchMode, sys.settrace, attribute assignment on the Extension object, file objects) already exists; the guard name is reserved and unused",
        "baseline_off_cmd": BASELINE.replace("<file>", "/tmp/quanto-baseline.junit.xml"),
        "source_commits": [],
        "add_only": True,
    },
    "engines": [
        {"name": "qsim-L", "path": "qsim/engine_l.py", "serves_properties": sorted(p for p in PROPS if PROPS[p]["engine"] == "L"), "kind_free_text": "model-lifecycle simulator: seeded plans over deployments, calibration/disable_extensions blocks, simulated disk, restart, injected exceptions at module/aten/line level; reference models (twin, EMA, memo, digests)"},
        {"name": "qsim-T", "path": "qsim/engine_t.py", "serves_properties": sorted(p for p in PROPS if PROPS[p]["engine"] == "T"), "kind_free_text": "tensor-program simulator: pooled quantized tensors, depth<=8 programs with aliasing and in-place ops, per-step float shadow, aten-level fault injection"},
        {"name": "qsim-K", "path": "qsim/engine_k.py", "serves_properties": sorted(p for p in PROPS if PROPS[p]["engine"] == "K"), "kind_free_text": "kernel-route simulator: extension switch, real C++ unpack kernel built from the working tree, failing/healing extension proxies, bit-level reference codec"},
    ],
    "checks": checks,
    "not_applicable": NOT_APPLICABLE,
    "notes": "Technique: deterministic simulation with fault injection (seeded search over histories and fault positions; one seed = one replayable run). See DESIGN.md.",
}
manifest["engines"] = [e for e in manifest["engines"] if e["serves_properties"]]
with open(os.path.join(os.path.dirname(os.path.abspath(__file__)), "MANIFEST.json"), "w") as f:
    json.dump(manifest, f, indent=1)
    f.write("\n")
print("wrote MANIFEST.json with", len(checks), "checks")
